"""Reusable rule primitives on top of core.py (who-may-call, ordering,
guard queries, simple value-set machinery)."""
from core import *  # noqa


# --------------------------------------------------------------------------
# A-WMC
# --------------------------------------------------------------------------

def indirect_calls(prog, funcs=None):
    """yield (func, block, idx, callnode, slot) for every indirect call.
    slot = ('field', record, field) | ('param', name) | ('local', name) | ('global', name) | ('expr', text)"""
    for f in (funcs if funcs is not None else prog.funcs.values()):
        for b, i, c in f.calls():
            if c.get("callee"):
                continue
            yield f, b, i, c, slot_of(c.get("fnx"))


def slot_of(fnx):
    e = strip(fnx)
    while e is not None and e.get("k") == "un" and e["op"] == "*":
        e = strip(e["e"])
    if e is None:
        return ("expr", "?")
    if e["k"] == "mem":
        return ("field", e["rec"], e["f"])
    if e["k"] == "var":
        return (e.get("vk", "local") if e.get("vk") != "static" else "local", e["n"])
    if e["k"] == "idx":
        s = slot_of(e["b"])
        return s
    return ("expr", render(e))


def field_accesses(prog, rec, field, funcs=None):
    """yield (func, block, idx|'term', element, memnode, is_write)"""
    for f in (funcs if funcs is not None else prog.funcs.values()):
        for b in f.blocks.values():
            for i, el in enumerate(b.els):
                for n, w in _mem_rw(el):
                    if n["f"] == field and n["rec"] == rec:
                        yield f, b, i, el, n, w
            if b.term and b.term.get("cond"):
                for n in mem_accesses(b.term["cond"]):
                    if n["f"] == field and n["rec"] == rec:
                        yield f, b, "term", b.term, n, False


def _mem_rw(el):
    """(memnode, is_write) pairs in an element, not descending into call refs."""
    k = el["k"]
    out = []
    if k == "decl":
        for v in el["vars"]:
            if v.get("init"):
                out.extend((n, False) for n in mem_accesses(v["init"]))
        return out
    e = el.get("e")
    if e is None:
        return out
    if k == "asg":
        l = strip(e["l"])
        for n in mem_accesses(e["l"]):
            out.append((n, n is l))
        if e["op"] not in ("=",) and l is not None and l.get("k") == "mem":
            out.append((l, False))
        if e.get("r"):
            out.extend((n, False) for n in mem_accesses(e["r"]))
        return out
    out.extend((n, False) for n in mem_accesses(e))
    return out


def element_mentions(el, pred):
    """does any expression node in the element satisfy pred(node)?"""
    k = el.get("k")
    if k == "decl":
        return any(pred(n) for v in el["vars"] if v.get("init") for n in walk(v["init"]))
    e = el.get("e")
    return e is not None and any(pred(n) for n in walk(e))


def uses_after(func, b, i, pred, stop=None):
    """elements reachable strictly after (b,i) whose expression mentions pred(node).
    stop(el) -> True: do not continue past that element on that path (e.g. re-assignment)."""
    out = []
    seen = set()
    bid = b.id if isinstance(b, Block) else b
    work = [(bid, i + 1)]
    while work:
        bb, start = work.pop()
        blk = func.blocks[bb]
        stopped = False
        for j in range(start, len(blk.els)):
            el = blk.els[j]
            if stop and stop(el):
                stopped = True
                break
            if element_mentions(el, pred):
                out.append((blk, j, el))
        if stopped:
            continue
        if blk.term and blk.term.get("cond") is not None and any(pred(n) for n in walk(blk.term["cond"])):
            out.append((blk, "term", blk.term))
        for s in func.succ(bb):
            if s not in seen:
                seen.add(s)
                work.append((s, 0))
    return out


def can_reach_exit_avoiding(func, b, i, is_barrier):
    """Is there a path from just after element (b,i) to the function exit (a return) that
    passes no element for which is_barrier(el) holds?  Returns a witness trail of
    block ids or None."""
    bid = b.id if isinstance(b, Block) else b
    start = (bid, i + 1)
    seen = set()
    work = [(start, [bid])]
    while work:
        (bb, st), trail = work.pop()
        blk = func.blocks[bb]
        blocked = False
        for j in range(st, len(blk.els)):
            if is_barrier(blk.els[j]):
                blocked = True
                break
        if blocked:
            continue
        if bb == func.exit:
            return trail
        for s in func.succ(bb):
            if s not in seen:
                seen.add(s)
                work.append(((s, 0), trail + [s]))
    return None


def can_reach_from_entry_avoiding(func, b, i, is_barrier):
    """Is there a path from function entry to element (b,i) that passes no barrier element?"""
    target = b.id if isinstance(b, Block) else b
    seen = set()
    work = [(func.entry, [func.entry])]
    seen.add(func.entry)
    while work:
        bb, trail = work.pop()
        blk = func.blocks[bb]
        lim = len(blk.els)
        if bb == target:
            lim = i
        blocked = False
        for j in range(0, lim):
            if is_barrier(blk.els[j]):
                blocked = True
                break
        if bb == target and not blocked:
            return trail
        if blocked:
            continue
        for s in func.succ(bb):
            if s not in seen:
                seen.add(s)
                work.append((s, trail + [s]))
    return None


def trail_lines(func, trail):
    out = []
    for b in trail:
        blk = func.blocks[b]
        if blk.els:
            out.append("%s:%s  %s" % (func.file, blk.els[0]["ln"], blk.els[0]["t"][:90]))
        elif blk.term:
            out.append("%s:%s  <%s>" % (func.file, blk.term["ln"], blk.term["cls"]))
    return out


def is_call_el(el, *names):
    return el["k"] == "call" and el["e"].get("callee") in names


def call_arg(c, n):
    a = c.get("args", [])
    return a[n] if n < len(a) else None


# --------------------------------------------------------------------------
# condition patterns
# --------------------------------------------------------------------------

def cond_holds(facts, pred):
    """facts: [(tree, pol)] ; pred(op, l, r) on the normalised comparison that HOLDS."""
    for c, pol in facts:
        op, l, r = norm_cmp(c, pol)
        if pred(op, l, r):
            return True
    return False


def is_flag_test(c, base_pred, flagname):
    """c is `X & FLAG` (or `(X & FLAG) != 0`) with base_pred(X) and FLAG spelled flagname"""
    c = strip(c)
    if c is None:
        return False
    if c.get("k") == "bin" and c["op"] in ("!=", "==") and const_val(c["r"]) == 0:
        c = strip(c["l"])
    if c.get("k") == "bin" and c["op"] == "&":
        for x, y in ((c["l"], c["r"]), (c["r"], c["l"])):
            if name_of_const(y) == flagname and base_pred(strip(x)):
                return True
    return False


def name_of_const(e):
    e = strip(e)
    if e is None:
        return None
    if e.get("k") == "enum":
        return e["n"]
    if "mac" in e:
        return e["mac"][-1]
    return None


def const_names(e):
    """set of enum/macro names appearing in e (through | and casts)"""
    out = set()
    for n in walk(e):
        nm = name_of_const(n)
        if nm:
            out.add(nm)
    return out


def is_field(e, field, rec=None):
    e = strip(e)
    return e is not None and e.get("k") == "mem" and e["f"] == field and (rec is None or e["rec"] == rec)


# --------------------------------------------------------------------------
# status abstraction: S(uccess)/F(ailure) tracking of a local
# --------------------------------------------------------------------------

def sf_of_expr(e, success_names=("ARES_SUCCESS",)):
    """'S', 'F' or None (unknown) for an rvalue"""
    e = strip(e)
    if e is None:
        return None
    if e.get("k") == "enum":
        return "S" if e["n"] in success_names else "F"
    return None


def refine_sf(cur, cond, pol, varname, success_names=("ARES_SUCCESS",)):
    """refine abstract value cur in {'S','F'} of local `varname` under cond==pol.
    returns new value or None if infeasible, or cur when the condition is unrelated."""
    for c, p in atoms(cond, pol):
        op, l, r = norm_cmp(c, p)
        if op in ("==", "!=") and is_var(l, varname):
            rv = sf_of_expr(r, success_names)
            if rv == "S":
                want = "S" if op == "==" else "F"
                if cur != want:
                    return None
            elif rv == "F" and op == "==":
                if cur != "F":
                    return None
    return cur


def is_defensive_fact(func, c, pol):
    """fact of the form `param != NULL` (i.e. the defensive NULL test on a parameter failed)"""
    op, l, r = norm_cmp(c, pol)
    pn = {p["n"] for p in func.params}
    if op == "!=" and r is not None and is_null(r) and is_var(l) and strip(l)["n"] in pn:
        return True
    if op == "truth" and is_var(l) and strip(l)["n"] in pn and strip(l)["ty"].endswith("*"):
        return True
    return False


# --------------------------------------------------------------------------
# gates: branches on the result of a call, and edge-avoiding reachability
# --------------------------------------------------------------------------

def _result_holder(func, blk, callnode):
    """path of the variable the call's result is assigned to inside blk (last such
    assignment, not overwritten before the terminator), or None."""
    holder = None
    for el in blk.els:
        if el["k"] == "asg" and el["e"]["op"] == "=" and el["e"].get("r") is not None:
            r = strip(el["e"]["r"])
            if r is not None and r.get("k") == "call" and r.get("id") == callnode.get("id"):
                holder = path(el["e"]["l"])
                continue
        if el["k"] == "decl":
            for v in el["vars"]:
                r = strip(v.get("init")) if v.get("init") else None
                if r is not None and r.get("k") == "call" and r.get("id") == callnode.get("id"):
                    holder = v["n"]
                    break
            else:
                if holder and any(v["n"] == holder for v in el["vars"]):
                    holder = None
            continue
        if holder and holder in written_vars(el):
            holder = None
    return holder


def call_result_branches(func, *callees):
    """branches whose condition tests the result of a call to one of `callees`:
    list of dict(block, call, op, rhs, true_succ, false_succ); (op, rhs) is the normalised
    comparison on the call result that HOLDS on the true edge ('truth'/'false' for bool tests)."""
    out = []
    for bid in func.rpo():
        blk = func.blocks[bid]
        br = func.branch(blk)
        if not br:
            continue
        cond, ts, fs = br
        calls_here = [el["e"] for el in blk.els if el["k"] == "call" and el["e"].get("callee") in callees]
        # a call evaluated in a predecessor block can also be the condition (`a && f()` splits blocks)
        for c, p in atoms(cond, True):
            op, l, r = norm_cmp(c, p)
            ls = strip(l)
            hit = None
            if ls is not None and ls.get("k") == "call" and ls.get("callee") in callees:
                hit = ls
            elif ls is not None:
                lp = path(ls)
                for cn in calls_here:
                    if lp is not None and _result_holder(func, blk, cn) == lp:
                        hit = cn
            if hit is not None:
                full = func.call_by_id(hit.get("id"))
                out.append({"block": blk, "call": full[2] if full else hit, "op": op, "rhs": r, "true": ts, "false": fs})
    return out


def status_pass_edge(g, success=("ARES_SUCCESS", "ARES_CONN_ERR_SUCCESS", "ARES_TRUE")):
    """for a call-result branch g: (pass_succ, fail_succ) where pass = callee reported success/true; None if unclear."""
    op, rhs = g["op"], g["rhs"]
    if op == "truth":
        return g["true"], g["false"]
    if op == "false":
        return g["false"], g["true"]
    nm = name_of_const(rhs) if rhs is not None else None
    if nm in success:
        if op == "==":
            return g["true"], g["false"]
        if op == "!=":
            return g["false"], g["true"]
    if rhs is not None and is_null(rhs):   # pointer result
        if op == "!=":
            return g["true"], g["false"]
        if op == "==":
            return g["false"], g["true"]
    return None


def reach_avoiding(func, start, avoid_edges=(), barrier=None, start_idx=0):
    """blocks whose START is reachable from (start block, element start_idx) without traversing an edge
    in avoid_edges and without passing a barrier element.  Returns dict block -> predecessor (for trails);
    the start block itself is included only if re-entered."""
    avoid = set(avoid_edges)
    pred = {}
    work = [(start, start_idx, None)]
    first = True
    while work:
        b, si, frm = work.pop()
        if not first:
            if b in pred:
                continue
            pred[b] = frm
        first = False
        blk = func.blocks[b]
        blocked = False
        if barrier:
            for j in range(si, len(blk.els)):
                if barrier(blk.els[j]):
                    blocked = True
                    break
        if blocked:
            continue
        for s in func.succ(b):
            if (b, s) in avoid:
                continue
            if s not in pred:
                work.append((s, 0, b))
    return pred


def trail_to(pred, target, start):
    t = [target]
    seen = {target}
    while pred.get(t[-1]) is not None and pred[t[-1]] not in seen:
        t.append(pred[t[-1]])
        seen.add(t[-1])
    t.reverse()
    return t


def element_reachable_avoiding(func, tb, ti, avoid_edges, barrier=None):
    """is element (tb, ti) reachable from function entry without the avoided edges / barrier elements?
    returns trail (list of blocks) or None"""
    tb = tb.id if isinstance(tb, Block) else tb
    pred = reach_avoiding(func, func.entry, avoid_edges, barrier)
    ok = (tb == func.entry) or (tb in pred)
    if not ok:
        return None
    if barrier:
        blk = func.blocks[tb]
        for j in range(0, ti if isinstance(ti, int) else len(blk.els)):
            if barrier(blk.els[j]):
                return None
    return trail_to(pred, tb, func.entry)


# --------------------------------------------------------------------------
# path-sensitive gate flow: pointer null-ness of chosen locals + set of gates passed
# --------------------------------------------------------------------------

def flow_with_gates(func, gates, null_vars=(), cap=512):
    """gates: {name: (block_id, pass_succ)}.  Tracks for each path which gates' pass edges were
    taken and the NULL-ness ('N','NN','?') of the locals in null_vars (refined on truth tests and
    comparisons with NULL, reset on assignment).  Returns forward_states map; a state is
    (frozenset(passed), tuple(nullness in order of sorted(null_vars)))."""
    nv = sorted(null_vars)
    idx = {n: k for k, n in enumerate(nv)}
    by_block = {}
    for name, (bid, ps) in gates.items():
        by_block.setdefault(bid, []).append((name, ps))

    def transfer(st, blk, i, el):
        passed, nul = st
        w = set()
        if el["k"] == "decl":
            for v in el["vars"]:
                if v["n"] in idx:
                    nl = list(nul)
                    nl[idx[v["n"]]] = "N" if (v.get("init") is not None and is_null(v["init"])) else "?"
                    nul = tuple(nl)
        elif el["k"] == "asg":
            p = path(el["e"]["l"])
            if p in idx:
                nl = list(nul)
                nl[idx[p]] = "N" if (el["e"]["op"] == "=" and is_null(el["e"].get("r"))) else "?"
                nul = tuple(nl)
        elif el["k"] == "call":
            for a in addr_taken_args(el["e"]):
                if a in idx:
                    nl = list(nul)
                    nl[idx[a]] = "?"
                    nul = tuple(nl)
        return [(passed, nul)]

    def refine(st, cond, pol, blk):
        passed, nul = st
        nl = list(nul)
        for c, p in atoms(cond, pol):
            op, l, r = norm_cmp(c, p)
            v = path(l) if l is not None else None
            if v in idx:
                want = None
                if op == "truth" or (op == "!=" and r is not None and is_null(r)):
                    want = "NN"
                elif op == "false" or (op == "==" and r is not None and is_null(r)):
                    want = "N"
                if want:
                    cur = nl[idx[v]]
                    if cur != "?" and cur != want:
                        return None
                    nl[idx[v]] = want
        br = func.branch(blk)
        if blk.id in by_block and br:
            succ = br[1] if pol else br[2]
            for name, ps in by_block[blk.id]:
                if ps == succ and br[1] != br[2]:
                    passed = passed | {name}
        return (passed, tuple(nl))

    init = (frozenset(), tuple("?" for _ in nv))
    return forward_states(func, init, transfer, refine, cap=cap)


# --------------------------------------------------------------------------
# destination-size rules (bounded copies into fixed arrays)
# --------------------------------------------------------------------------

import re as _re

# callee -> (destination argument index, size argument index)
COPY_FUNCS = {
    "ares_strcpy": (0, 2), "ares_buf_tag_fetch_string": (1, 2), "ares_inet_ntop": (2, 3), "memcpy": (0, 2), "memset": (0, 2), "memmove": (0, 2),
    "snprintf": (0, 1), "ares_buf_fetch_bytes": (1, 2), "buf_fetch_string": (1, 2), "ares_buf_hexstr": (1, 2), "strncpy": (0, 2),
    "ares_buf_tag_fetch_bytes": (1, 2), "ares_buf_parse_hexstr": (1, 2), "recv": (1, 2), "read": (1, 2), "ares_rand_bytes": (1, 2),
    "ares_strlower": (0, 0), "if_indextoname": (1, 1), "ares_if_indextoname": (1, 2), "ares_inet_net_pton": (2, 3),
}


def array_bytes(node, prog=None):
    """size in bytes of the array object an lvalue node denotes, or None"""
    n = strip(node)
    if n is None:
        return None
    if n.get("k") == "un" and n["op"] == "&":
        n = strip(n["e"])
        if n.get("k") == "idx" and const_val(n["i"]) == 0:
            n = strip(n["b"])
    m = _re.match(r"^(const )?(unsigned char|char|signed char)\[(\d+)\]$", n.get("ty") or "")
    if m:
        return int(m.group(3))
    return None


def dst_size_findings(prog, funcs):
    """[(func, ln, key, ok, msg)] for every bounded copy whose destination is a fixed-size char array"""
    out = []
    for f in funcs:
        mf = None
        for b, i, c in f.calls():
            spec = COPY_FUNCS.get(c.get("callee"))
            if not spec:
                continue
            di, si = spec
            args = c.get("args", [])
            if di >= len(args) or si >= len(args) or di == si:
                continue
            N = array_bytes(args[di])
            if N is None:
                continue
            sz = strip(args[si])
            key = "fn=%s copy=%s dst=%s" % (f.name, c["callee"], render(args[di]))
            if sz.get("k") == "un" and sz["op"] == "&":
                # in/out length variable: its value at the call
                lv = path(sz["e"])
                v = None
                for bb, ii, el in f.elements():
                    if el["k"] == "decl":
                        for vv in el["vars"]:
                            if vv["n"] == lv and vv.get("init") is not None:
                                v = const_val(vv["init"])
                    elif el["k"] == "asg" and path(el["e"]["l"]) == lv and el["e"]["op"] == "=":
                        v = const_val(el["e"]["r"])
                sz = {"v": v} if v is not None else sz
            if sz.get("v") is not None:
                ok = sz["v"] <= N
                out.append((f, c["ln"], key, ok, "copy of up to %s bytes into a %d-byte array" % (sz["v"], N)))
            else:
                if mf is None:
                    mf = MustFacts(f, track_calls=False)
                lo, hi = interval(args[si], mf.cond_facts_at(b, i), prog, f, point=(b.id, i))
                if hi <= N:
                    out.append((f, c["ln"], key, True, "length in [%s,%s] <= %d" % (lo, hi, N)))
                else:
                    out.append((f, c["ln"], key, None, "length '%s' not bounded by the destination size %d" % (render(args[si]), N)))
    return out


def idx_store_findings(prog, funcs):
    out = []
    for f in funcs:
        mf = None
        for b, i, el in f.elements():
            if el["k"] != "asg":
                continue
            l = strip(el["e"]["l"])
            if l.get("k") != "idx":
                continue
            N = array_bytes(l["b"])
            if N is None:
                continue
            key = "fn=%s store=%s" % (f.name, render(l))
            if l["i"].get("v") is not None:
                out.append((f, el["ln"], key, 0 <= l["i"]["v"] < N, "constant index %s, array of %d" % (l["i"]["v"], N)))
            else:
                if mf is None:
                    mf = MustFacts(f, track_calls=False)
                lo, hi = interval(l["i"], mf.cond_facts_at(b, i), prog, f, point=(b.id, i))
                out.append((f, el["ln"], key, True if (lo >= 0 and hi < N) else None, "index in [%s,%s], array of %d" % (lo, hi, N)))
    return out


# --------------------------------------------------------------------------
# tiny interval evaluation of an expression at a program point (for shift / index bounds)
# --------------------------------------------------------------------------

INF = float("inf")
_UMAX = {"unsigned char": 255, "unsigned short": 65535, "unsigned int": 2**32 - 1, "unsigned long": 2**64 - 1,
         "char": 127, "signed char": 127, "short": 32767, "int": 2**31 - 1, "long": 2**63 - 1}
_UNSIGNED = ("unsigned char", "unsigned short", "unsigned int", "unsigned long", "_Bool")


def type_bits(ty):
    return {"unsigned char": 8, "char": 8, "signed char": 8, "unsigned short": 16, "short": 16, "unsigned int": 32, "int": 32,
            "unsigned long": 64, "long": 64, "long long": 64, "unsigned long long": 64}.get(ty)


def promoted_bits(ty):
    b = type_bits(ty)
    if b is None:
        return None
    return max(b, 32)


def interval(e, facts=(), prog=None, func=None, depth=0, point=None):
    """[lo, hi] of integer expression e given must-facts [(tree,pol)] (bounds on access paths)."""
    e0 = e
    e = strip(e)
    if e is None:
        return (-INF, INF)
    if e.get("v") is not None:
        return (e["v"], e["v"])
    ty = e.get("ty", "")
    tlo, thi = (-INF, INF)
    if ty in _UNSIGNED:
        tlo = 0
    if ty in _UMAX:
        thi = _UMAX[ty]
        if ty not in _UNSIGNED:
            tlo = -thi - 1
    k = e.get("k")
    lo, hi = tlo, thi
    p = path(e)
    if p is not None:
        for c, pol in facts:
            op, l, r = norm_cmp(c, pol)
            if r is None:
                continue
            for a, b, o in ((l, r, op), (r, l, SWAP.get(op))):
                if o is None or path(a) != p:
                    continue
                bl, bh = interval(b, [x for x in facts if x[0] is not c], prog, func, depth + 1) if depth < 3 else (-INF, INF)
                if o == "<" and bh != INF:
                    hi = min(hi, bh - 1)
                elif o == "<=" and bh != INF:
                    hi = min(hi, bh)
                elif o == ">" and bl != -INF:
                    lo = max(lo, bl + 1)
                elif o == ">=" and bl != -INF:
                    lo = max(lo, bl)
                elif o == "==":
                    if bh != INF:
                        hi = min(hi, bh)
                    if bl != -INF:
                        lo = max(lo, bl)
        # parameter: bound by what every caller passes
        if k == "var" and e.get("vk") == "param" and prog is not None and func is not None and depth < 2 and (hi == thi):
            idx = func.param_index(e["n"])
            cs = prog.callers_of(func)
            if idx is not None and cs and not _param_written(func, e["n"]):
                his = []
                for cf, cb, ci, cc in cs:
                    a = call_arg(cc, idx)
                    his.append(interval(a, (), prog, cf, depth + 1)[1] if a is not None else INF)
                if his:
                    hi = min(hi, max(his))
        if k == "var" and func is not None and point is not None and hi == thi:
            # clamp pattern `if (v > K) v = K;` dominating the point with no other write in between
            for cl in find_clamps(func, e["n"]):
                if cl["kind"] != "cap":
                    continue
                cb = cl["block"].id
                if cb not in func.dominators().get(point[0], ()) or cb == point[0]:
                    continue
                tb, ti = cl["asg"]
                after = reach_after(func, cb, len(func.blocks[cb].els) - 1)
                bad = False
                for wb_, wi, wel in func.elements():
                    if wel["k"] == "asg" and path(wel["e"]["l"]) == e["n"] and not (wb_.id == tb.id and wi == ti):
                        if (wb_.id, wi) in after and point in reach_after(func, wb_.id, wi) | {point}:
                            bad = True
                if not bad:
                    bh = interval(cl["bound"], (), prog, func, depth + 1)[1]
                    hi = min(hi, bh)
        if k == "var" and e.get("vk") == "local" and func is not None and depth < 2 and hi == thi:
            wb = _local_write_bound(func, e["n"], prog, depth)
            if wb is not None:
                hi = min(hi, wb)
        return (lo, hi)
    if k == "bin":
        a = interval(e["l"], facts, prog, func, depth, point)
        b = interval(e["r"], facts, prog, func, depth, point)
        op = e["op"]
        if op == "%" and b[0] == b[1] and b[0] > 0:
            if a[0] >= 0:
                return (0, min(a[1], b[0] - 1))
            return (-(b[0] - 1), b[0] - 1)
        if op == "&":
            cands = [x[1] for x in (a, b) if x[0] >= 0 and x[1] != INF]
            if cands:
                return (0, min(cands))
            return (lo, hi)
        if op == "+":
            return (max(lo, a[0] + b[0]), min(hi, a[1] + b[1]))
        if op == "-":
            rl, rh = a[0] - b[1], a[1] - b[0]
            if tlo == 0 and rl < 0:
                return (tlo, thi)   # may wrap
            return (max(lo, rl), min(hi, rh))
        if op == "*" and a[0] >= 0 and b[0] >= 0:
            return (a[0] * b[0], min(hi, a[1] * b[1]))
        if op == "/" and b[0] > 0 and a[0] >= 0:
            return (0, a[1] // b[0] if a[1] != INF else INF)
        if op == "<<" and a[0] >= 0 and b[0] >= 0 and b[1] != INF and a[1] != INF:
            return (0, min(hi, a[1] << int(b[1])))
        if op == ">>" and a[0] >= 0:
            return (0, a[1])
        return (lo, hi)
    if k == "cond":
        a = interval(e["t"], facts, prog, func, depth)
        b = interval(e["f"], facts, prog, func, depth)
        return (min(a[0], b[0]), max(a[1], b[1]))
    return (lo, hi)


def find_clamps(func, var):
    """list of dict(kind='floor'|'cap', bound, block, asg=(blk,i), extra_conds)"""
    out = []
    for bid in func.rpo():
        br = func.branch(bid)
        if not br:
            continue
        for c, p in atoms(br[0], True):
            op, l, rr = norm_cmp(c, p)
            if rr is None or op not in ("<", ">", "<=", ">="):
                continue
            for a, b2, o in ((l, rr, op), (rr, l, SWAP[op])):
                if path(a) != var:
                    continue
                tb = func.blocks[br[1]] if br[1] is not None else None
                if tb is None:
                    continue
                for i, el in enumerate(tb.els):
                    if el["k"] == "asg" and el["e"]["op"] == "=" and path(el["e"]["l"]) == var and render(strip(el["e"]["r"])) == render(strip(b2)):
                        out.append({"kind": "floor" if o in ("<", "<=") else "cap", "bound": b2, "block": func.blocks[bid], "asg": (tb, i)})
    return out



def _local_write_bound(func, name, prog, depth):
    """upper bound of a local that is only ever assigned bounded values and otherwise decremented"""
    his = []
    for b, i, el in func.elements():
        if el["k"] == "decl":
            for v in el["vars"]:
                if v["n"] == name:
                    if v.get("init") is None:
                        continue
                    his.append(interval(v["init"], (), prog, func, depth + 1)[1])
        elif el["k"] == "asg" and path(el["e"]["l"]) == name:
            op = el["e"]["op"]
            if op in ("--", "-=", "/=", ">>=", "%=", "&="):
                continue
            if op == "=":
                his.append(interval(el["e"]["r"], (), prog, func, depth + 1)[1])
            else:
                return None
        elif el["k"] == "call" and name in addr_taken_args(el["e"]):
            return None
    return max(his) if his else None


def _param_written(func, name):
    for b, i, el in func.elements():
        if el["k"] == "asg" and path(el["e"]["l"]) == name:
            return True
        if el["k"] == "call" and name in addr_taken_args(el["e"]):
            return True
    return False


def all_exprs_with_points(func):
    """yield (block, idx|'term', root_tree) for every element and terminator condition"""
    for b in func.blocks.values():
        for i, el in enumerate(b.els):
            if el["k"] == "decl":
                for v in el["vars"]:
                    if v.get("init"):
                        yield b, i, v["init"]
            elif el.get("e") is not None:
                yield b, i, el["e"]
        if b.term and b.term.get("cond") is not None:
            yield b, len(b.els), b.term["cond"]


def loop_var_facts(func, blk):
    """extra facts for a block inside `for (i = A; i > 0; i--)`-style loops are already in must-facts
    via the loop condition edge; nothing to add (placeholder for documentation)."""
    return []


# --------------------------------------------------------------------------
# A-VS: finite value sets of enum/bool locals, disjunctive, with call summaries
# --------------------------------------------------------------------------

class ValueSets:
    """Tracks locals/params whose canonical type is an enum (ares_status_t, ares_bool_t, ...).
    State = (vals, extra): vals is a tuple of frozensets aligned with self.names; extra is an
    opaque hashable owned by the rule (typestate).  Hooks:
      on_el(extra, blk, i, el, get) -> iterable of new extras   (get(name) -> frozenset)
      on_edge(extra, blk, cond, pol, get) -> extra or None
    """

    def __init__(self, prog, func, names=None, summaries=None, on_el=None, on_edge=None, init_extra=None, cap=512,
                 extra_domains=None, call_assign=None, call_value=None, init_vals=None):
        self.prog, self.f = prog, func
        self.call_assign = call_assign
        self.call_value = call_value
        self._cur_extra = None
        self.summ = summaries
        self.on_el, self.on_edge = on_el, on_edge
        dom = {}
        for v in func.vars.values():
            if names is not None and v["n"] not in names:
                continue
            en = prog.enums.get(v["ty"])
            if en is not None:
                dom[v["n"]] = frozenset(it["n"] for it in en["items"])
        if extra_domains:
            dom.update(extra_domains)
        self.names = sorted(dom)
        self.idx = {n: k for k, n in enumerate(self.names)}
        self.dom = dom
        self.zero = {}
        for n in self.names:
            en = prog.enums.get(func_var_type(func, n))
            if en:
                self.zero[n] = frozenset(it["n"] for it in en["items"] if it["v"] == 0)
            elif n in dom:
                self.zero[n] = frozenset(x for x in dom[n] if prog.enumconst.get(x, (None, 1))[1] == 0)
        init = (tuple((frozenset(init_vals[n]) & dom[n]) if (init_vals and n in init_vals and frozenset(init_vals[n]) & dom[n]) else dom[n] for n in self.names), init_extra)
        self.at = forward_states(func, init, self._transfer, self._refine, cap=cap, switch_refine=self._switch)

    # ---- evaluation ----
    def eval(self, e, vals):
        """value set (frozenset of enumerator names) of expression e, or None = unknown"""
        e = strip(e)
        if e is None:
            return None
        k = e.get("k")
        if k == "enum":
            return frozenset([e["n"]])
        if k == "var" and e["n"] in self.idx:
            return vals[self.idx[e["n"]]]
        if k == "cond":
            a, b = self.eval(e["t"], vals), self.eval(e["f"], vals)
            return None if a is None or b is None else a | b
        if k == "call" and self.call_value is not None:
            v = self.call_value(self._cur_extra, e)
            if v is not None:
                return v
        if k == "call" and self.summ is not None:
            return self.summ.call_return_set(self.f, e)
        if k == "asg" and e["op"] == "=":
            return self.eval(e["r"], vals)
        return None

    def _set(self, vals, name, s):
        if name not in self.idx:
            return vals
        if s is None:
            s = self.dom[name]
        else:
            s = s & self.dom[name] if (s & self.dom[name]) else self.dom[name]
        l = list(vals)
        l[self.idx[name]] = s
        return tuple(l)

    def _transfer(self, st, blk, i, el):
        vals, extra = st
        self._cur_extra = extra
        k = el["k"]
        outs_vals = [vals]
        if k == "decl":
            for v in el["vars"]:
                if v["n"] in self.idx:
                    vals = self._set(vals, v["n"], self.eval(v.get("init"), vals) if v.get("init") is not None else None)
            outs_vals = [vals]
        elif k == "asg":
            p = path(el["e"]["l"])
            if p in self.idx:
                if el["e"]["op"] == "=":
                    s = self.eval(el["e"]["r"], vals)
                    if s is not None and len(s) > 1 and self.summ is not None and strip(el["e"]["r"]).get("k") == "call":
                        # split per returned value so that later refinement / typestate can correlate
                        outs_vals = [self._set(vals, p, frozenset([x])) for x in sorted(s) if x in self.dom[p]] or [self._set(vals, p, None)]
                    else:
                        outs_vals = [self._set(vals, p, s)]
                else:
                    outs_vals = [self._set(vals, p, None)]
        elif k == "call":
            for a in addr_taken_args(el["e"]):
                if a in self.idx:
                    vals = self._set(vals, a, None)
            if self.call_assign:
                for pth, s in (self.call_assign(el["e"]) or {}).items():
                    vals = self._set(vals, pth, s)
            outs_vals = [vals]
        res = []
        for v2 in outs_vals:
            if self.on_el:
                get = lambda n, vv=v2: vv[self.idx[n]] if n in self.idx else None
                for ex in self.on_el(extra, blk, i, el, get):
                    if isinstance(ex, tuple) and len(ex) == 3 and ex[0] == "upd":
                        v3 = v2
                        for nm, sset in ex[2].items():
                            v3 = self._set(v3, nm, sset)
                        res.append((v3, ex[1]))
                    else:
                        res.append((v2, ex))
            else:
                res.append((v2, extra))
        return res

    def _refine_vals(self, vals, cond, pol):
        for c, p in atoms(cond, pol):
            op, l, r = norm_cmp(c, p)
            n = path(l) if l is not None else None
            # assignment inside condition: (x = f()) != K
            ls = strip(l)
            if ls is not None and ls.get("k") == "asg" and ls["op"] == "=":
                n = path(ls["l"])
            if ls is not None and ls.get("k") == "call" and n is None:
                cv = self.eval(ls, vals)
                if cv is not None and len(cv) == 1:
                    name = next(iter(cv))
                    num = 0 if name == "NULL" else (1 if name == "NN" else self.prog.enumconst.get(name, (None, None))[1])
                    if op == "truth" and num == 0:
                        return None
                    if op == "false" and num is not None and num != 0:
                        return None
                    if op in ("==", "!="):
                        rs = self.eval(r, vals)
                        if rs is not None and len(rs) == 1:
                            same = (next(iter(rs)) == name)
                            if (op == "==") != same:
                                return None
                        elif r is not None and is_null(r) and num is not None:
                            same = (num == 0)
                            if (op == "==") != same:
                                return None
                        elif r is not None and const_val(r) is not None and num is not None:
                            same = (const_val(r) == num)
                            if (op == "==") != same:
                                return None
                continue
            if n in self.idx:
                cur = vals[self.idx[n]]
                if op in ("==", "!="):
                    rs = self.eval(r, vals)
                    if rs is not None and len(rs) == 1:
                        new = (cur & rs) if op == "==" else (cur - rs)
                    elif r is not None and const_val(r) == 0 and n in self.zero:
                        new = (cur & self.zero[n]) if op == "==" else (cur - self.zero[n])
                    else:
                        new = cur
                elif op == "truth" and n in self.zero:
                    new = cur - self.zero[n]
                elif op == "false" and n in self.zero:
                    new = cur & self.zero[n]
                else:
                    new = cur
                if not new:
                    return None
                l2 = list(vals)
                l2[self.idx[n]] = new
                vals = tuple(l2)
            elif r is not None and path(r) in self.idx and op in ("==", "!="):
                n2 = path(r)
                ls_ = self.eval(l, vals)
                if ls_ is not None and len(ls_) == 1:
                    cur = vals[self.idx[n2]]
                    new = (cur & ls_) if op == "==" else (cur - ls_)
                    if not new:
                        return None
                    l2 = list(vals)
                    l2[self.idx[n2]] = new
                    vals = tuple(l2)
        return vals

    def _refine(self, st, cond, pol, blk):
        vals, extra = st
        self._cur_extra = extra
        vals = self._refine_vals(vals, cond, pol)
        if vals is None:
            return None
        if self.on_edge:
            get = lambda n: vals[self.idx[n]] if n in self.idx else None
            extra = self.on_edge(extra, blk, cond, pol, get)
            if extra is None:
                return None
        return (vals, extra)

    def _switch(self, st, sw, casevals, allvals):
        vals, extra = st
        n = path(sw)
        if n in self.idx:
            cur = vals[self.idx[n]]
            if isinstance(casevals, list):
                names = frozenset(x for x in (name_of_const(v) for v in casevals) if x)
                new = cur & names if names else cur
            else:
                names = frozenset(x for x in (name_of_const(v) for v in allvals) if x)
                new = cur - names
            if not new:
                return None
            l2 = list(vals)
            l2[self.idx[n]] = new
            vals = tuple(l2)
        return (vals, extra)

    # ---- queries ----
    def states_at(self, b, i):
        bid = b.id if isinstance(b, Block) else b
        return self.at.get((bid, i), set())

    def get(self, st, name):
        return st[0][self.idx[name]] if name in self.idx else None


def func_var_type(func, name):
    for v in func.vars.values():
        if v["n"] == name:
            return v["ty"]
    return None


class Summaries:
    """memoised return value sets of functions returning an enum type.
    ignore_defensive=True drops the values returned only on paths that pass a `pointer-parameter == NULL` edge
    (DefensiveCoding returns), i.e. assumes callers pass valid pointers."""

    def __init__(self, prog, ignore_defensive=False):
        self.prog = prog
        self.memo = {}
        self.active = set()
        self.ignore_defensive = ignore_defensive
        self.pruned = 0

    def return_set(self, func, spec=None):
        """spec: tuple of (param name, enum constant) for enum-typed parameters known at the call site"""
        mkey = (func.key, spec) if spec else func.key
        if mkey in self.memo:
            return self.memo[mkey]
        if spec:
            res = self._compute(func, dict((k, [v]) for k, v in spec))
            self.memo[mkey] = res
            return res
        return self._return_set_plain(func)

    def _compute(self, func, init_vals):
        en = self.prog.enums.get(func.ret)
        if en is None:
            return None
        full = frozenset(it["n"] for it in en["items"])
        akey = (func.key, tuple(sorted((k, tuple(v)) for k, v in init_vals.items())))
        if akey in self.active:
            return full
        self.active.add(akey)
        try:
            pn = {p["n"] for p in func.params if "*" in p["ty"]}

            def on_edge(extra, blk, cond, pol, get):
                for cc, p in atoms(cond, pol):
                    op, l, rr = norm_cmp(cc, p)
                    if is_var(l) and strip(l)["n"] in pn and ((op == "==" and rr is not None and is_null(rr)) or op == "false"):
                        return True
                return extra
            vs = ValueSets(self.prog, func, summaries=self, cap=2048, on_edge=on_edge if self.ignore_defensive else None, init_extra=False,
                           init_vals=init_vals)
            out = set()
            for b, i, el in func.returns():
                for st in vs.states_at(b, i):
                    if self.ignore_defensive and st[1]:
                        continue
                    s2 = vs.eval(el.get("e"), st[0])
                    out |= (full if s2 is None else s2)
            return frozenset(out) if out else full
        except AnalysisBroken:
            return full
        finally:
            self.active.discard(akey)

    def _return_set_plain(self, func):
        if func.key in self.memo:
            return self.memo[func.key]
        en = self.prog.enums.get(func.ret)
        if en is None:
            self.memo[func.key] = None
            return None
        full = frozenset(it["n"] for it in en["items"])
        if func.key in self.active:
            return full
        self.active.add(func.key)
        try:
            pn = {p["n"] for p in func.params if "*" in p["ty"]}

            def on_edge(extra, blk, cond, pol, get):
                for cc, p in atoms(cond, pol):
                    op, l, rr = norm_cmp(cc, p)
                    if is_var(l) and strip(l)["n"] in pn and ((op == "==" and rr is not None and is_null(rr)) or op == "false"):
                        return True
                return extra
            vs = ValueSets(self.prog, func, summaries=self, cap=2048, on_edge=on_edge if self.ignore_defensive else None, init_extra=False)
            out = set()
            for b, i, el in func.returns():
                for st in vs.states_at(b, i):
                    if self.ignore_defensive and st[1]:
                        self.pruned += 1
                        continue
                    s = vs.eval(el.get("e"), st[0])
                    if s is None:
                        out |= full
                    else:
                        out |= s
            res = frozenset(out) if out else full
        except AnalysisBroken:
            res = full
        finally:
            self.active.discard(func.key)
        self.memo[func.key] = res
        return res

    def call_return_set(self, caller, callnode):
        t = self.prog.resolve(caller, callnode)
        if t is None:
            return None
        spec = []
        full = caller.call_by_id(callnode.get("id")) if callnode.get("ref") else None
        args = (full[2] if full else callnode).get("args", [])
        for k, a in enumerate(args):
            if k < len(t.params) and self.prog.enums.get(t.params[k]["ty"]) is not None:
                nm = name_of_const(a)
                if nm and strip(a).get("k") == "enum":
                    spec.append((t.params[k]["n"], nm))
        return self.return_set(t, tuple(spec) if spec else None)


def guard_delta(mf, ref, site):
    """branch facts (tree, pol) that hold at `site` (block,idx) but not at `ref` (block,idx): the guards
    acquired between the two points."""
    rb, ri = ref
    sb, si = site
    base = {fk for fk in mf.facts_at(rb, ri)}
    return [(mf.trees[fk], fk[1]) for fk in mf.facts_at(sb, si) if fk in mf.trees and fk not in base]
