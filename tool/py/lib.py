"""Reusable rule primitives on top of core.py (who-may-call, ordering,
guard queries, simple value-set machinery)."""
from core import *  # noqa


# --------------------------------------------------------------------------
# A-WMC
# --------------------------------------------------------------------------

def indirect_calls(prog, funcs=None):
    """yield (func, block, idx, callnode, slot) for every indirect call.
    slot = ('field', record, field) | ('param', name) | ('local', name) | ('global', name) | ('expr', text)"""
    for f in (funcs if funcs is not None else prog.funcs.values()):
        for b, i, c in f.calls():
            if c.get("callee"):
                continue
            yield f, b, i, c, slot_of(c.get("fnx"))


def slot_of(fnx):
    e = strip(fnx)
    while e is not None and e.get("k") == "un" and e["op"] == "*":
        e = strip(e["e"])
    if e is None:
        return ("expr", "?")
    if e["k"] == "mem":
        return ("field", e["rec"], e["f"])
    if e["k"] == "var":
        return (e.get("vk", "local") if e.get("vk") != "static" else "local", e["n"])
    if e["k"] == "idx":
        s = slot_of(e["b"])
        return s
    return ("expr", render(e))


def field_accesses(prog, rec, field, funcs=None):
    """yield (func, block, idx|'term', element, memnode, is_write)"""
    for f in (funcs if funcs is not None else prog.funcs.values()):
        for b in f.blocks.values():
            for i, el in enumerate(b.els):
                for n, w in _mem_rw(el):
                    if n["f"] == field and n["rec"] == rec:
                        yield f, b, i, el, n, w
            if b.term and b.term.get("cond"):
                for n in mem_accesses(b.term["cond"]):
                    if n["f"] == field and n["rec"] == rec:
                        yield f, b, "term", b.term, n, False


def _mem_rw(el):
    """(memnode, is_write) pairs in an element, not descending into call refs."""
    k = el["k"]
    out = []
    if k == "decl":
        for v in el["vars"]:
            if v.get("init"):
                out.extend((n, False) for n in mem_accesses(v["init"]))
        return out
    e = el.get("e")
    if e is None:
        return out
    if k == "asg":
        l = strip(e["l"])
        for n in mem_accesses(e["l"]):
            out.append((n, n is l))
        if e["op"] not in ("=",) and l is not None and l.get("k") == "mem":
            out.append((l, False))
        if e.get("r"):
            out.extend((n, False) for n in mem_accesses(e["r"]))
        return out
    out.extend((n, False) for n in mem_accesses(e))
    return out


def element_mentions(el, pred):
    """does any expression node in the element satisfy pred(node)?"""
    k = el.get("k")
    if k == "decl":
        return any(pred(n) for v in el["vars"] if v.get("init") for n in walk(v["init"]))
    e = el.get("e")
    return e is not None and any(pred(n) for n in walk(e))


def uses_after(func, b, i, pred, stop=None):
    """elements reachable strictly after (b,i) whose expression mentions pred(node).
    stop(el) -> True: do not continue past that element on that path (e.g. re-assignment)."""
    out = []
    seen = set()
    bid = b.id if isinstance(b, Block) else b
    work = [(bid, i + 1)]
    while work:
        bb, start = work.pop()
        blk = func.blocks[bb]
        stopped = False
        for j in range(start, len(blk.els)):
            el = blk.els[j]
            if stop and stop(el):
                stopped = True
                break
            if element_mentions(el, pred):
                out.append((blk, j, el))
        if stopped:
            continue
        if blk.term and blk.term.get("cond") is not None and any(pred(n) for n in walk(blk.term["cond"])):
            out.append((blk, "term", blk.term))
        for s in func.succ(bb):
            if s not in seen:
                seen.add(s)
                work.append((s, 0))
    return out


def can_reach_exit_avoiding(func, b, i, is_barrier):
    """Is there a path from just after element (b,i) to the function exit (a return) that
    passes no element for which is_barrier(el) holds?  Returns a witness trail of
    block ids or None."""
    bid = b.id if isinstance(b, Block) else b
    start = (bid, i + 1)
    seen = set()
    work = [(start, [bid])]
    while work:
        (bb, st), trail = work.pop()
        blk = func.blocks[bb]
        blocked = False
        for j in range(st, len(blk.els)):
            if is_barrier(blk.els[j]):
                blocked = True
                break
        if blocked:
            continue
        if bb == func.exit:
            return trail
        for s in func.succ(bb):
            if s not in seen:
                seen.add(s)
                work.append(((s, 0), trail + [s]))
    return None


def can_reach_from_entry_avoiding(func, b, i, is_barrier):
    """Is there a path from function entry to element (b,i) that passes no barrier element?"""
    target = b.id if isinstance(b, Block) else b
    seen = set()
    work = [(func.entry, [func.entry])]
    seen.add(func.entry)
    while work:
        bb, trail = work.pop()
        blk = func.blocks[bb]
        lim = len(blk.els)
        if bb == target:
            lim = i
        blocked = False
        for j in range(0, lim):
            if is_barrier(blk.els[j]):
                blocked = True
                break
        if bb == target and not blocked:
            return trail
        if blocked:
            continue
        for s in func.succ(bb):
            if s not in seen:
                seen.add(s)
                work.append((s, trail + [s]))
    return None


def trail_lines(func, trail):
    out = []
    for b in trail:
        blk = func.blocks[b]
        if blk.els:
            out.append("%s:%s  %s" % (func.file, blk.els[0]["ln"], blk.els[0]["t"][:90]))
        elif blk.term:
            out.append("%s:%s  <%s>" % (func.file, blk.term["ln"], blk.term["cls"]))
    return out


def is_call_el(el, *names):
    return el["k"] == "call" and el["e"].get("callee") in names


def call_arg(c, n):
    a = c.get("args", [])
    return a[n] if n < len(a) else None


# --------------------------------------------------------------------------
# condition patterns
# --------------------------------------------------------------------------

def cond_holds(facts, pred):
    """facts: [(tree, pol)] ; pred(op, l, r) on the normalised comparison that HOLDS."""
    for c, pol in facts:
        op, l, r = norm_cmp(c, pol)
        if pred(op, l, r):
            return True
    return False


def is_flag_test(c, base_pred, flagname):
    """c is `X & FLAG` (or `(X & FLAG) != 0`) with base_pred(X) and FLAG spelled flagname"""
    c = strip(c)
    if c is None:
        return False
    if c.get("k") == "bin" and c["op"] in ("!=", "==") and const_val(c["r"]) == 0:
        c = strip(c["l"])
    if c.get("k") == "bin" and c["op"] == "&":
        for x, y in ((c["l"], c["r"]), (c["r"], c["l"])):
            if name_of_const(y) == flagname and base_pred(strip(x)):
                return True
    return False


def name_of_const(e):
    e = strip(e)
    if e is None:
        return None
    if e.get("k") == "enum":
        return e["n"]
    if "mac" in e:
        return e["mac"][-1]
    return None


def const_names(e):
    """set of enum/macro names appearing in e (through | and casts)"""
    out = set()
    for n in walk(e):
        nm = name_of_const(n)
        if nm:
            out.add(nm)
    return out


def is_field(e, field, rec=None):
    e = strip(e)
    return e is not None and e.get("k") == "mem" and e["f"] == field and (rec is None or e["rec"] == rec)


# --------------------------------------------------------------------------
# status abstraction: S(uccess)/F(ailure) tracking of a local
# --------------------------------------------------------------------------

def sf_of_expr(e, success_names=("ARES_SUCCESS",)):
    """'S', 'F' or None (unknown) for an rvalue"""
    e = strip(e)
    if e is None:
        return None
    if e.get("k") == "enum":
        return "S" if e["n"] in success_names else "F"
    return None


def refine_sf(cur, cond, pol, varname, success_names=("ARES_SUCCESS",)):
    """refine abstract value cur in {'S','F'} of local `varname` under cond==pol.
    returns new value or None if infeasible, or cur when the condition is unrelated."""
    for c, p in atoms(cond, pol):
        op, l, r = norm_cmp(c, p)
        if op in ("==", "!=") and is_var(l, varname):
            rv = sf_of_expr(r, success_names)
            if rv == "S":
                want = "S" if op == "==" else "F"
                if cur != want:
                    return None
            elif rv == "F" and op == "==":
                if cur != "F":
                    return None
    return cur


def is_defensive_fact(func, c, pol):
    """fact of the form `param != NULL` (i.e. the defensive NULL test on a parameter failed)"""
    op, l, r = norm_cmp(c, pol)
    pn = {p["n"] for p in func.params}
    if op == "!=" and r is not None and is_null(r) and is_var(l) and strip(l)["n"] in pn:
        return True
    if op == "truth" and is_var(l) and strip(l)["n"] in pn and strip(l)["ty"].endswith("*"):
        return True
    return False


# --------------------------------------------------------------------------
# gates: branches on the result of a call, and edge-avoiding reachability
# --------------------------------------------------------------------------

def _result_holder(func, blk, callnode):
    """path of the variable the call's result is assigned to inside blk (last such
    assignment, not overwritten before the terminator), or None."""
    holder = None
    for el in blk.els:
        if el["k"] == "asg" and el["e"]["op"] == "=" and el["e"].get("r") is not None:
            r = strip(el["e"]["r"])
            if r is not None and r.get("k") == "call" and r.get("id") == callnode.get("id"):
                holder = path(el["e"]["l"])
                continue
        if el["k"] == "decl":
            for v in el["vars"]:
                r = strip(v.get("init")) if v.get("init") else None
                if r is not None and r.get("k") == "call" and r.get("id") == callnode.get("id"):
                    holder = v["n"]
                    break
            else:
                if holder and any(v["n"] == holder for v in el["vars"]):
                    holder = None
            continue
        if holder and holder in written_vars(el):
            holder = None
    return holder


def call_result_branches(func, *callees):
    """branches whose condition tests the result of a call to one of `callees`:
    list of dict(block, call, op, rhs, true_succ, false_succ); (op, rhs) is the normalised
    comparison on the call result that HOLDS on the true edge ('truth'/'false' for bool tests)."""
    out = []
    for bid in func.rpo():
        blk = func.blocks[bid]
        br = func.branch(blk)
        if not br:
            continue
        cond, ts, fs = br
        calls_here = [el["e"] for el in blk.els if el["k"] == "call" and el["e"].get("callee") in callees]
        # a call evaluated in a predecessor block can also be the condition (`a && f()` splits blocks)
        for c, p in atoms(cond, True):
            op, l, r = norm_cmp(c, p)
            ls = strip(l)
            hit = None
            if ls is not None and ls.get("k") == "call" and ls.get("callee") in callees:
                hit = ls
            elif ls is not None:
                lp = path(ls)
                for cn in calls_here:
                    if lp is not None and _result_holder(func, blk, cn) == lp:
                        hit = cn
            if hit is not None:
                full = func.call_by_id(hit.get("id"))
                out.append({"block": blk, "call": full[2] if full else hit, "op": op, "rhs": r, "true": ts, "false": fs})
    return out


def status_pass_edge(g, success=("ARES_SUCCESS", "ARES_CONN_ERR_SUCCESS", "ARES_TRUE")):
    """for a call-result branch g: (pass_succ, fail_succ) where pass = callee reported success/true; None if unclear."""
    op, rhs = g["op"], g["rhs"]
    if op == "truth":
        return g["true"], g["false"]
    if op == "false":
        return g["false"], g["true"]
    nm = name_of_const(rhs) if rhs is not None else None
    if nm in success:
        if op == "==":
            return g["true"], g["false"]
        if op == "!=":
            return g["false"], g["true"]
    if rhs is not None and is_null(rhs):   # pointer result
        if op == "!=":
            return g["true"], g["false"]
        if op == "==":
            return g["false"], g["true"]
    return None


def reach_avoiding(func, start, avoid_edges=(), barrier=None, start_idx=0):
    """blocks whose START is reachable from (start block, element start_idx) without traversing an edge
    in avoid_edges and without passing a barrier element.  Returns dict block -> predecessor (for trails);
    the start block itself is included only if re-entered."""
    avoid = set(avoid_edges)
    pred = {}
    work = [(start, start_idx, None)]
    first = True
    while work:
        b, si, frm = work.pop()
        if not first:
            if b in pred:
                continue
            pred[b] = frm
        first = False
        blk = func.blocks[b]
        blocked = False
        if barrier:
            for j in range(si, len(blk.els)):
                if barrier(blk.els[j]):
                    blocked = True
                    break
        if blocked:
            continue
        for s in func.succ(b):
            if (b, s) in avoid:
                continue
            if s not in pred:
                work.append((s, 0, b))
    return pred


def trail_to(pred, target, start):
    t = [target]
    seen = {target}
    while pred.get(t[-1]) is not None and pred[t[-1]] not in seen:
        t.append(pred[t[-1]])
        seen.add(t[-1])
    t.reverse()
    return t


def element_reachable_avoiding(func, tb, ti, avoid_edges, barrier=None):
    """is element (tb, ti) reachable from function entry without the avoided edges / barrier elements?
    returns trail (list of blocks) or None"""
    tb = tb.id if isinstance(tb, Block) else tb
    pred = reach_avoiding(func, func.entry, avoid_edges, barrier)
    ok = (tb == func.entry) or (tb in pred)
    if not ok:
        return None
    if barrier:
        blk = func.blocks[tb]
        for j in range(0, ti if isinstance(ti, int) else len(blk.els)):
            if barrier(blk.els[j]):
                return None
    return trail_to(pred, tb, func.entry)


# --------------------------------------------------------------------------
# path-sensitive gate flow: pointer null-ness of chosen locals + set of gates passed
# --------------------------------------------------------------------------

def flow_with_gates(func, gates, null_vars=(), cap=512):
    """gates: {name: (block_id, pass_succ)}.  Tracks for each path which gates' pass edges were
    taken and the NULL-ness ('N','NN','?') of the locals in null_vars (refined on truth tests and
    comparisons with NULL, reset on assignment).  Returns forward_states map; a state is
    (frozenset(passed), tuple(nullness in order of sorted(null_vars)))."""
    nv = sorted(null_vars)
    idx = {n: k for k, n in enumerate(nv)}
    by_block = {}
    for name, (bid, ps) in gates.items():
        by_block.setdefault(bid, []).append((name, ps))

    def transfer(st, blk, i, el):
        passed, nul = st
        w = set()
        if el["k"] == "decl":
            for v in el["vars"]:
                if v["n"] in idx:
                    nl = list(nul)
                    nl[idx[v["n"]]] = "N" if (v.get("init") is not None and is_null(v["init"])) else "?"
                    nul = tuple(nl)
        elif el["k"] == "asg":
            p = path(el["e"]["l"])
            if p in idx:
                nl = list(nul)
                nl[idx[p]] = "N" if (el["e"]["op"] == "=" and is_null(el["e"].get("r"))) else "?"
                nul = tuple(nl)
        elif el["k"] == "call":
            for a in addr_taken_args(el["e"]):
                if a in idx:
                    nl = list(nul)
                    nl[idx[a]] = "?"
                    nul = tuple(nl)
        return [(passed, nul)]

    def refine(st, cond, pol, blk):
        passed, nul = st
        nl = list(nul)
        for c, p in atoms(cond, pol):
            op, l, r = norm_cmp(c, p)
            v = path(l) if l is not None else None
            if v in idx:
                want = None
                if op == "truth" or (op == "!=" and r is not None and is_null(r)):
                    want = "NN"
                elif op == "false" or (op == "==" and r is not None and is_null(r)):
                    want = "N"
                if want:
                    cur = nl[idx[v]]
                    if cur != "?" and cur != want:
                        return None
                    nl[idx[v]] = want
        br = func.branch(blk)
        if blk.id in by_block and br:
            succ = br[1] if pol else br[2]
            for name, ps in by_block[blk.id]:
                if ps == succ and br[1] != br[2]:
                    passed = passed | {name}
        return (passed, tuple(nl))

    init = (frozenset(), tuple("?" for _ in nv))
    return forward_states(func, init, transfer, refine, cap=cap)
