"""Reusable rule primitives on top of core.py (who-may-call, ordering,
guard queries, simple value-set machinery)."""
from core import *  # noqa


# --------------------------------------------------------------------------
# A-WMC
# --------------------------------------------------------------------------

def indirect_calls(prog, funcs=None):
    """yield (func, block, idx, callnode, slot) for every indirect call.
    slot = ('field', record, field) | ('param', name) | ('local', name) | ('global', name) | ('expr', text)"""
    for f in (funcs if funcs is not None else prog.funcs.values()):
        for b, i, c in f.calls():
            if c.get("callee"):
                continue
            yield f, b, i, c, slot_of(c.get("fnx"))


def slot_of(fnx):
    e = strip(fnx)
    while e is not None and e.get("k") == "un" and e["op"] == "*":
        e = strip(e["e"])
    if e is None:
        return ("expr", "?")
    if e["k"] == "mem":
        return ("field", e["rec"], e["f"])
    if e["k"] == "var":
        return (e.get("vk", "local") if e.get("vk") != "static" else "local", e["n"])
    if e["k"] == "idx":
        s = slot_of(e["b"])
        return s
    return ("expr", render(e))


def field_accesses(prog, rec, field, funcs=None):
    """yield (func, block, idx|'term', element, memnode, is_write)"""
    for f in (funcs if funcs is not None else prog.funcs.values()):
        for b in f.blocks.values():
            for i, el in enumerate(b.els):
                for n, w in _mem_rw(el):
                    if n["f"] == field and n["rec"] == rec:
                        yield f, b, i, el, n, w
            if b.term and b.term.get("cond"):
                for n in mem_accesses(b.term["cond"]):
                    if n["f"] == field and n["rec"] == rec:
                        yield f, b, "term", b.term, n, False


def _mem_rw(el):
    """(memnode, is_write) pairs in an element, not descending into call refs."""
    k = el["k"]
    out = []
    if k == "decl":
        for v in el["vars"]:
            if v.get("init"):
                out.extend((n, False) for n in mem_accesses(v["init"]))
        return out
    e = el.get("e")
    if e is None:
        return out
    if k == "asg":
        l = strip(e["l"])
        for n in mem_accesses(e["l"]):
            out.append((n, n is l))
        if e["op"] not in ("=",) and l is not None and l.get("k") == "mem":
            out.append((l, False))
        if e.get("r"):
            out.extend((n, False) for n in mem_accesses(e["r"]))
        return out
    out.extend((n, False) for n in mem_accesses(e))
    return out


def element_mentions(el, pred):
    """does any expression node in the element satisfy pred(node)?"""
    k = el.get("k")
    if k == "decl":
        return any(pred(n) for v in el["vars"] if v.get("init") for n in walk(v["init"]))
    e = el.get("e")
    return e is not None and any(pred(n) for n in walk(e))


def uses_after(func, b, i, pred, stop=None):
    """elements reachable strictly after (b,i) whose expression mentions pred(node).
    stop(el) -> True: do not continue past that element on that path (e.g. re-assignment)."""
    out = []
    seen = set()
    bid = b.id if isinstance(b, Block) else b
    work = [(bid, i + 1)]
    while work:
        bb, start = work.pop()
        blk = func.blocks[bb]
        stopped = False
        for j in range(start, len(blk.els)):
            el = blk.els[j]
            if stop and stop(el):
                stopped = True
                break
            if element_mentions(el, pred):
                out.append((blk, j, el))
        if stopped:
            continue
        if blk.term and blk.term.get("cond") is not None and any(pred(n) for n in walk(blk.term["cond"])):
            out.append((blk, "term", blk.term))
        for s in func.succ(bb):
            if s not in seen:
                seen.add(s)
                work.append((s, 0))
    return out


def can_reach_exit_avoiding(func, b, i, is_barrier):
    """Is there a path from just after element (b,i) to the function exit (a return) that
    passes no element for which is_barrier(el) holds?  Returns a witness trail of
    block ids or None."""
    bid = b.id if isinstance(b, Block) else b
    start = (bid, i + 1)
    seen = set()
    work = [(start, [bid])]
    while work:
        (bb, st), trail = work.pop()
        blk = func.blocks[bb]
        blocked = False
        for j in range(st, len(blk.els)):
            if is_barrier(blk.els[j]):
                blocked = True
                break
        if blocked:
            continue
        if bb == func.exit:
            return trail
        for s in func.succ(bb):
            if s not in seen:
                seen.add(s)
                work.append(((s, 0), trail + [s]))
    return None


def can_reach_from_entry_avoiding(func, b, i, is_barrier):
    """Is there a path from function entry to element (b,i) that passes no barrier element?"""
    target = b.id if isinstance(b, Block) else b
    seen = set()
    work = [(func.entry, [func.entry])]
    seen.add(func.entry)
    while work:
        bb, trail = work.pop()
        blk = func.blocks[bb]
        lim = len(blk.els)
        if bb == target:
            lim = i
        blocked = False
        for j in range(0, lim):
            if is_barrier(blk.els[j]):
                blocked = True
                break
        if bb == target and not blocked:
            return trail
        if blocked:
            continue
        for s in func.succ(bb):
            if s not in seen:
                seen.add(s)
                work.append((s, trail + [s]))
    return None


def trail_lines(func, trail):
    out = []
    for b in trail:
        blk = func.blocks[b]
        if blk.els:
            out.append("%s:%s  %s" % (func.file, blk.els[0]["ln"], blk.els[0]["t"][:90]))
        elif blk.term:
            out.append("%s:%s  <%s>" % (func.file, blk.term["ln"], blk.term["cls"]))
    return out


def is_call_el(el, *names):
    return el["k"] == "call" and el["e"].get("callee") in names


def call_arg(c, n):
    a = c.get("args", [])
    return a[n] if n < len(a) else None


# --------------------------------------------------------------------------
# condition patterns
# --------------------------------------------------------------------------

def cond_holds(facts, pred):
    """facts: [(tree, pol)] ; pred(op, l, r) on the normalised comparison that HOLDS."""
    for c, pol in facts:
        op, l, r = norm_cmp(c, pol)
        if pred(op, l, r):
            return True
    return False


def is_flag_test(c, base_pred, flagname):
    """c is `X & FLAG` (or `(X & FLAG) != 0`) with base_pred(X) and FLAG spelled flagname"""
    c = strip(c)
    if c is None:
        return False
    if c.get("k") == "bin" and c["op"] in ("!=", "==") and const_val(c["r"]) == 0:
        c = strip(c["l"])
    if c.get("k") == "bin" and c["op"] == "&":
        for x, y in ((c["l"], c["r"]), (c["r"], c["l"])):
            if name_of_const(y) == flagname and base_pred(strip(x)):
                return True
    return False


def name_of_const(e):
    e = strip(e)
    if e is None:
        return None
    if e.get("k") == "enum":
        return e["n"]
    if "mac" in e:
        return e["mac"][-1]
    return None


def const_names(e):
    """set of enum/macro names appearing in e (through | and casts)"""
    out = set()
    for n in walk(e):
        nm = name_of_const(n)
        if nm:
            out.add(nm)
    return out


def is_field(e, field, rec=None):
    e = strip(e)
    return e is not None and e.get("k") == "mem" and e["f"] == field and (rec is None or e["rec"] == rec)


# --------------------------------------------------------------------------
# status abstraction: S(uccess)/F(ailure) tracking of a local
# --------------------------------------------------------------------------

def sf_of_expr(e, success_names=("ARES_SUCCESS",)):
    """'S', 'F' or None (unknown) for an rvalue"""
    e = strip(e)
    if e is None:
        return None
    if e.get("k") == "enum":
        return "S" if e["n"] in success_names else "F"
    return None


def refine_sf(cur, cond, pol, varname, success_names=("ARES_SUCCESS",)):
    """refine abstract value cur in {'S','F'} of local `varname` under cond==pol.
    returns new value or None if infeasible, or cur when the condition is unrelated."""
    for c, p in atoms(cond, pol):
        op, l, r = norm_cmp(c, p)
        if op in ("==", "!=") and is_var(l, varname):
            rv = sf_of_expr(r, success_names)
            if rv == "S":
                want = "S" if op == "==" else "F"
                if cur != want:
                    return None
            elif rv == "F" and op == "==":
                if cur != "F":
                    return None
    return cur


def is_defensive_fact(func, c, pol):
    """fact of the form `param != NULL` (i.e. the defensive NULL test on a parameter failed)"""
    op, l, r = norm_cmp(c, pol)
    pn = {p["n"] for p in func.params}
    if op == "!=" and r is not None and is_null(r) and is_var(l) and strip(l)["n"] in pn:
        return True
    if op == "truth" and is_var(l) and strip(l)["n"] in pn and strip(l)["ty"].endswith("*"):
        return True
    return False
