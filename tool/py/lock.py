"""A-LOCK: lock depth, balance, entry contexts, guarded access, lock order."""
from lib import *  # noqa

CH, EV = 0, 1    # lock classes: channel->lock, e->mutex


def lock_event(f, c):
    """(class, +1/-1) if call node c acquires/releases a lock class directly, else None"""
    cal = c.get("callee")
    if cal == "ares_channel_lock":
        return (CH, +1)
    if cal == "ares_channel_unlock":
        return (CH, -1)
    if cal in ("ares_thread_mutex_lock", "ares_thread_mutex_unlock"):
        a = strip(call_arg(c, 0))
        d = +1 if cal.endswith("_lock") and not cal.endswith("unlock") else -1
        if a is not None and a.get("k") == "mem":
            if a["rec"] == "ares_channeldata" and a["f"] == "lock":
                return (CH, d)
            if a["rec"] == "ares_event_thread" and a["f"] == "mutex":
                return (EV, d)
            return (("other", a["rec"], a["f"]), d)
    return None


class Locks:
    def __init__(self, prog):
        self.prog = prog
        self.net = {}          # func key -> tuple(net effect per class) or None if unbalanced/unknown
        self.local = {}        # func key -> {(blk, idx): set of depth tuples before the element}
        self.exits = {}        # func key -> set of depth tuples at exits
        self.active = set()
        self.may_lock = {}     # func key -> set of classes it may acquire (transitively)
        for f in prog.funcs.values():
            self.analyse(f)
        self._may_lock()
        self.entry = None

    def analyse(self, f):
        if f.key in self.net:
            return self.net[f.key]
        if f.key in self.active:
            return (0, 0)
        if f.name in ("ares_channel_lock", "ares_channel_unlock"):
            self.net[f.key] = (1, 0) if f.name.endswith("_lock") and not f.name.endswith("unlock") else (-1, 0)
            self.local[f.key] = {}
            self.exits[f.key] = {self.net[f.key]}
            return self.net[f.key]
        self.active.add(f.key)
        prog = self.prog

        def transfer(st, blk, i, el):
            if el["k"] != "call":
                return [st]
            c = el["e"]
            ev = lock_event(f, c)
            d = list(st)
            if ev is not None:
                if ev[0] in (CH, EV):
                    d[ev[0]] += ev[1]
                return [tuple(d)]
            t = prog.resolve(f, c)
            if t is not None:
                n = self.analyse(t)
                if n is not None and n != (0, 0):
                    d[0] += n[0]
                    d[1] += n[1]
                    return [tuple(d)]
            return [st]
        try:
            at = forward_states(f, (0, 0), transfer, None, cap=64)
        except AnalysisBroken:
            at = {}
        self.active.discard(f.key)
        self.local[f.key] = at
        ex = set()
        for b, i, el in f.exits():
            ex |= at.get((b.id, i), set())
        self.exits[f.key] = ex
        self.net[f.key] = next(iter(ex)) if len(ex) == 1 else ((0, 0) if not ex else None)
        return self.net[f.key]

    def _may_lock(self):
        prog = self.prog
        ml = {f.key: set() for f in prog.funcs.values()}
        for f in prog.funcs.values():
            for b, i, c in f.calls():
                ev = lock_event(f, c)
                if ev is not None and ev[1] > 0 and ev[0] in (CH, EV):
                    ml[f.key].add(ev[0])
        changed = True
        while changed:
            changed = False
            for f in prog.funcs.values():
                for b, i, c in f.calls():
                    t = prog.resolve(f, c)
                    if t is not None and not ml[t.key] <= ml[f.key]:
                        ml[f.key] |= ml[t.key]
                        changed = True
        self.may_lock = ml

    def depth_at(self, f, b, i):
        """set of local depth tuples before element (b,i)"""
        bid = b.id if isinstance(b, Block) else b
        return self.local.get(f.key, {}).get((bid, i), set())

    # ---- entry contexts ----
    def entry_depths(self, roots, virtual=None, indirect_targets=None):
        """minimum channel-lock depth with which each function can be entered, propagating from roots.
        roots: {func key: (ch, ev)}; virtual: {func key: extra channel depth for its whole body}.
        indirect_targets: callable(f, callnode) -> [Func] for slot-resolved indirect calls"""
        virtual = virtual or {}
        ent = {}
        work = []
        self.why = {}
        for k, d in roots.items():
            ent[k] = {d}
            work.append(k)
        prog = self.prog
        while work:
            k = work.pop()
            f = prog.funcs[k]
            for d0 in list(ent[k]):
                v = virtual.get(k, 0)
                for b, i, c in f.calls():
                    targets = []
                    t = prog.resolve(f, c)
                    if t is not None:
                        targets.append(t)
                    elif indirect_targets is not None and not c.get("callee"):
                        targets.extend(indirect_targets(f, c))
                    if indirect_targets is not None and c.get("callee") and t is not None and t.file.startswith("src/lib/dsa/"):
                        targets.extend(indirect_targets(f, c))
                    # function pointers passed as arguments are not calls
                    for t in targets:
                        for ld in self.depth_at(f, b, i) or {(0, 0)}:
                            nd = (min(d0[0] + v + ld[0], 3), min(d0[1] + ld[1], 3))
                            s = ent.setdefault(t.key, set())
                            if nd not in s and len(s) < 8:
                                s.add(nd)
                                self.why[(t.key, nd)] = (k, d0, c["ln"])
                                work.append(t.key)
        self.entry = ent
        return ent

    def trail(self, key, d):
        out = []
        seen = set()
        while (key, d) in self.why and (key, d) not in seen:
            seen.add((key, d))
            k, d0, ln = self.why[(key, d)]
            out.append("%s entered with depth %s from %s:%s" % (key, d, k, ln))
            key, d = k, d0
        out.append("%s is a thread root (depth %s)" % (key, d))
        return out
