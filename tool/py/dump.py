import sys, os
sys.path.insert(0, os.path.dirname(os.path.abspath(__file__)))
from lib import *
def dump(prog, name, file=None):
    for f in prog.by_name.get(name, []):
        if file and not f.file.endswith(file): continue
        print("==", f.key, f.file, f.ln, "entry", f.entry, "exit", f.exit)
        for b in f.rpo():
            blk = f.blocks[b]
            print(" B%d succs=%s %s" % (b, blk.succs, ("label=" + str(blk.label.get("k")) + ":" + (render(blk.label["lo"]) if blk.label.get("lo") else blk.label.get("n",""))) if blk.label else ""))
            for i, el in enumerate(blk.els):
                e = el.get("e")
                if el["k"] == "decl":
                    t = "; ".join("%s %s = %s" % (v["ty"], v["n"], render(v.get("init"))) for v in el["vars"])
                else:
                    t = render(e)
                print("    [%d] %-5s L%d %s" % (i, el["k"], el["ln"], t))
            if blk.term:
                print("    T: %s %s" % (blk.term["cls"], render(blk.term.get("cond")) if blk.term.get("cond") else ""))
if __name__ == "__main__":
    p = load_program(sys.argv[3] if len(sys.argv) > 3 else "/repo")
    dump(p, sys.argv[1], sys.argv[2] if len(sys.argv) > 2 and sys.argv[2] != "-" else None)
