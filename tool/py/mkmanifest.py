#!/usr/bin/env python3
"""Regenerate /verif/MANIFEST.json from the rule modules' own metadata."""
import importlib, json, os, sys
HERE = os.path.dirname(os.path.abspath(__file__))
sys.path.insert(0, HERE); sys.path.insert(0, os.path.join(HERE, "rules"))
V = os.path.dirname(os.path.dirname(HERE))
NA = json.load(open(os.path.join(V, "tables", "not_applicable.json")))
props = [json.loads(l)["id"] for l in open(os.path.join(V, "properties.jsonl"))]
checks = []
for pid in props:
    if not os.path.exists(os.path.join(HERE, "rules", pid + ".py")):
        continue
    m = importlib.import_module(pid)
    checks.append({
        "property_id": pid,
        "quick_cmd": "./vf check %s --tier quick" % pid,
        "thorough_cmd": "./vf check %s --tier thorough" % pid,
        "evidence_file": "/verif/evidence/%s.json" % pid,
        "replay_cmd_template": "./vf replay {path}",
        "engine": "cxfacts+vf",
        "level_claimed": {"category": "other", "text": m.LEVEL_TEXT, "design_ref": m.DESIGN_REF},
        "level_note": m.LEVEL_NOTE,
        "technique": m.TECHNIQUE,
    })
claimed = {c["property_id"] for c in checks}
na = [x for x in NA if x["property_id"] not in claimed]
for pid in props:
    if pid not in claimed and not any(x["property_id"] == pid for x in na):
        na.append({"property_id": pid, "reason": "no check built yet for this property in this tree (see DESIGN.md §6/%s for the planned static rules); not claimed" % pid})
man = {
    "version": 1,
    "setup_cmd": "./setup.sh",
    "hooks": {"guard": "CARES_VERIF", "enable": "none needed: the checks analyse /repo's source with clang LibTooling, no instrumented build of c-ares is made",
              "baseline_off_cmd": "cmake --build /repo/_build -j16 && ctest --test-dir /repo/_build -j8 --timeout 900",
              "source_commits": [], "add_only": True},
    "engines": [{"name": "cxfacts+vf", "path": "/verif/vf", "serves_properties": sorted(claimed),
                 "kind_free_text": "custom static analysis: LibTooling fact extractor (tool/cxfacts, type-resolved AST + clang::CFG per function, "
                                   "91 units) and Python analyses (who-may-call, must-facts/guard dominance, disjunctive value-set and typestate "
                                   "dataflow, ownership, lockset, table/sibling agreement); nothing is executed"}],
    "checks": checks,
    "not_applicable": sorted(na, key=lambda x: x["property_id"]),
    "notes": "exit 0 = held (KNOWN-FINDING lines for entries of known_findings.json), 1 = VIOLATION, 2 = ANALYSIS-BROKEN (anchor vanished / floor not met / extraction failed). ./vf selftest runs the mutant and seeded-change catalogue against scratch copies.",
}
json.dump(man, open(os.path.join(V, "MANIFEST.json"), "w"), indent=1)
print("claimed:", sorted(claimed), "n/a:", [x["property_id"] for x in man["not_applicable"]])
