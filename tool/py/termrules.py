"""NULL-terminated pointer arrays handed out by the library (hostent h_aliases / h_addr_list): every element store leaves room for the
terminator.  Decided per store by one of three recognised arguments (anything else is analysis-broken, not a verdict):

 A  counted loop: the array has C elements, the loop runs `i < N` with i advanced exactly once per iteration, the store index starts at
    a constant and is advanced at most once per iteration after the store  =>  index <= i - i0 + idx0 < N - i0 + idx0, need C >= that + 1.
 B  list walk behind a counting helper: C = n + e + 1 with n = g(list) where g counts at least every element the walk stores (g's skip
    condition implies the walk's), the index starts at e and is advanced once per store.
 C  grow on demand: a guard on (index, capacity) directly before the store; `index + 1 >= cap` (or stronger) reserves the terminator slot,
    `index >= cap` does not.
"""
from lib import *  # noqa
import linear as L

TERM_FIELDS = ("h_aliases", "h_addr_list")
ALLOCS = ("ares_malloc", "ares_malloc_zero", "ares_realloc_zero", "ares_realloc")


def _field_of(e):
    e = strip(e)
    if e is not None and e.get("k") == "mem" and e["f"] in TERM_FIELDS:
        return e
    return None


def _count_of_size(sz):
    """size expression -> element-count tree (the factor that is not a sizeof), or None"""
    s = strip(sz)
    if s is None or s.get("k") != "bin" or s["op"] != "*":
        return None
    l, r = strip(s["l"]), strip(s["r"])
    if l is not None and l.get("k") == "sizeof":
        return r
    if r is not None and r.get("k") == "sizeof":
        return l
    return None


def _resolve_call(f, e):
    e = strip(e)
    if e is None or e.get("k") != "call":
        return None
    if e.get("ref"):
        full = f.call_by_id(e["id"])
        return full[2] if full else None
    return e


def _allocations(f, fld_txt):
    """count trees of every allocation whose result reaches the field (directly or through one local)"""
    out = []
    tmp = set()
    for b, i, el in f.elements():
        if el["k"] == "asg" and el["e"]["op"] == "=" and render(strip(el["e"]["l"])) == fld_txt:
            r = strip(el["e"].get("r"))
            if is_var(r):
                tmp.add(r["n"])
            c = _resolve_call(f, r)
            if c is not None and c.get("callee") in ALLOCS:
                out.append((b, i, c))
    for b, i, el in f.elements():
        pairs = []
        if el["k"] == "asg" and el["e"]["op"] == "=" and is_var(strip(el["e"]["l"])) and strip(el["e"]["l"])["n"] in tmp:
            pairs.append(el["e"].get("r"))
        if el["k"] == "decl":
            pairs += [v["init"] for v in el["vars"] if v["n"] in tmp and v.get("init") is not None]
        for rhs in pairs:
            c = _resolve_call(f, rhs)
            if c is not None and c.get("callee") in ALLOCS:
                out.append((b, i, c))
    res = []
    for b, i, c in out:
        szarg = c["args"][-1] if c.get("callee") != "ares_realloc" else c["args"][1]
        res.append((b, i, c, _count_of_size(szarg)))
    return res


def _writes(f, name, blocks=None):
    out = []
    for b, i, el in f.elements():
        if blocks is not None and b.id not in blocks:
            continue
        if el["k"] == "asg" and is_var(strip(el["e"]["l"]), name):
            out.append((b, i, el))
        if el["k"] == "decl":
            for v in el["vars"]:
                if v["n"] == name and v.get("init") is not None:
                    out.append((b, i, {"k": "asg", "e": {"op": "=", "l": {"k": "var", "n": name}, "r": v["init"]}, "ln": el.get("ln")}))
    return out


def _loop_of(f, bid):
    """innermost natural loop (header, body) containing block bid"""
    best = None
    for h, body in f.natural_loops().items():
        if bid in body and (best is None or len(body) < len(best[1])):
            best = (h, body)
    return best


def _every_path_to_header_passes(f, b, i, h, body, pred):
    seen = set()
    work = [(b.id, i + 1)]
    while work:
        bid, st = work.pop()
        blk = f.blocks[bid]
        if any(pred(blk.els[j]) for j in range(st, len(blk.els))):
            continue
        for s in f.succ(bid):
            if s == h:
                return False
            if s in body and s not in seen:
                seen.add(s)
                work.append((s, 0))
    return True


def term_rule(prog, R, rid, floor=4):
    r = R.rule(rid, "NULL-terminated arrays handed out in a hostent keep a free slot for the terminator at every element store (allocation count vs the "
               "index that can be reached, the counting helper vs the loop it sizes, or the growth guard)", floor=floor,
               analysis="induction-variable relation + linear normal form of allocation counts + sibling agreement of count helper and store loop")
    n = 0
    for f in sorted(prog.funcs.values(), key=lambda x: x.key):
        if not f.file.startswith("src/lib/"):
            continue
        stores = []
        for b, i, el in f.elements():
            if el["k"] != "asg" or el["e"]["op"] != "=":
                continue
            l = strip(el["e"]["l"])
            if l is None or l.get("k") != "idx":
                continue
            fld = _field_of(l["b"])
            if fld is None or is_null(el["e"].get("r")):
                continue
            stores.append((b, i, el, l, fld))
        for b, i, el, l, fld in stores:
            n += 1
            ftxt = render(fld)
            ix = strip(l["i"])
            k = "fn=%s %s[%s] leaves room for the terminator" % (f.name, ftxt, render(ix))
            allocs = _allocations(f, ftxt)
            if not allocs:
                r.broke("%s: allocation of %s not found" % (f.name, ftxt))
                continue
            counts = [c for _, _, _, c in allocs]
            if any(c is None for c in counts):
                r.broke("%s: element count of the allocation of %s not recognised" % (f.name, ftxt))
                continue
            # constant index
            if const_val(ix) is not None:
                bad = [c for c in counts if not (set(L.lin(c)) == {""} and L.lin(c)[""] >= const_val(ix) + 2)]
                if bad:
                    r.viol(k, f.name, f.loc(el), "element %d is stored into an array of %s elements: no slot is left for the NULL terminator" % (const_val(ix), render(bad[0])))
                else:
                    r.ok(k, f.loc(el))
                continue
            if not is_var(ix):
                r.broke("%s: index of %s is not a variable" % (f.name, ftxt))
                continue
            idx = ix["n"]
            lp = _loop_of(f, b.id)
            if lp is None:
                r.broke("%s: store to %s[%s] outside a loop" % (f.name, ftxt, idx))
                continue
            h, body = lp
            # dense output: when the loop can skip input elements, the store index must be the output counter, not the input position
            hbr0 = f.branch(h)
            if hbr0:
                for c3, p3 in atoms(hbr0[0], True) + atoms(hbr0[0], False):
                    op3, l3, r3 = norm_cmp(c3, p3)
                    if r3 is not None and is_var(strip(l3), idx) and op3 in ("<", ">=", "<=", ">"):
                        skips = any((f.blocks[x].term or {}).get("cls") == "ContinueStmt" for x in body)
                        if skips:
                            r.viol("fn=%s %s filled densely" % (f.name, ftxt), f.name, f.loc(el), "elements are stored at the input position '%s' although the loop skips some inputs: the skipped positions stay NULL, so the list ends at the first gap for every consumer (and for the free function, which leaks what lies behind it)" % idx)
                            idx = None
                        break
            if idx is None:
                continue
            # index discipline inside the loop: only ++, at most once per iteration, after the store
            iw = _writes(f, idx, body)
            if not iw or any(w[2]["e"]["op"] != "++" for w in iw):
                r.broke("%s: %s is not advanced by ++ only inside the loop" % (f.name, idx))
                continue
            once = len(iw) == 1
            # C: grow on demand -- a guard on the index and a capacity variable whose true edge reallocates the field
            verdict = None
            for gb in body:
                br = f.branch(gb)
                if not br:
                    continue
                op, gl, gr = norm_cmp(br[0], True)
                if gr is None or op not in (">=", ">", "<", "<=", "=="):
                    continue
                if idx not in [v["n"] for v in vars_in(gl)] + [v["n"] for v in vars_in(gr)]:
                    continue
                # does one edge lead (inside the loop) to a reallocation of the field before the store?
                grow_edge = None
                for pol, tgt in ((True, br[1]), (False, br[2])):
                    if tgt is None:
                        continue
                    blk2 = f.blocks[tgt]
                    if any(e2["k"] == "call" and e2["e"].get("callee") in ("ares_realloc_zero", "ares_realloc") for e2 in blk2.els):
                        grow_edge = pol
                if grow_edge is None:
                    continue
                # normalise to: grow when  idx + d >= cap   (d integer)
                op2, a, c2 = norm_cmp(br[0], grow_edge)
                dd = L.diff(a, c2)
                capv = [x for x in dd if x not in ("", idx)]
                if len(capv) != 1 or abs(dd.get(idx, 0)) != 1 or abs(dd[capv[0]]) != 1 or dd.get(idx) == dd[capv[0]]:
                    continue
                sgn = dd[idx]           # +1: expression is idx - cap + const ; -1: cap - idx + const
                const = dd.get("", 0)
                # grow condition G:  sgn*(idx - cap) + const  op2  0
                # express as idx - cap >= t  (the smallest slack at which we still grow)
                t = None
                if sgn == 1:
                    t = {">=": -const, ">": -const + 1, "==": None}.get(op2)
                else:
                    t = {"<=": const, "<": const + 1, "==": None}.get(op2)
                    if t is not None:
                        t = t
                if t is None:
                    continue
                # no growth  =>  idx - cap < t  =>  idx <= cap + t - 1 ; terminator needs idx + 1 <= cap - 1  i.e.  t <= -1
                if t <= -1:
                    verdict = ("ok", "grown whenever %s + %d >= %s" % (idx, -t, capv[0]))
                else:
                    verdict = ("viol", "the array is grown only when %s >= %s%s: with exactly that many elements the last one occupies the final slot and the NULL terminator is written (or expected) one element past the allocation" % (idx, capv[0], (" + %d" % t) if t else ""))
            if verdict:
                if verdict[0] == "ok":
                    r.ok(k + " (grow on demand)", f.loc(el), verdict[1])
                else:
                    r.viol(k, f.name, f.loc(el), verdict[1])
                continue
            if not once:
                r.broke("%s: %s advanced more than once per iteration" % (f.name, idx))
                continue
            wb, wi, wel = iw[0]
            # dense output, second form: the index advances only in rounds that stored an element.  From the loop header, the ++ is reachable only
            # through a store to field[idx]; otherwise a skipped input leaves a NULL hole in the middle of the list.
            def _is_store(e2, ftxt=ftxt, idx=idx):
                if e2["k"] != "asg" or e2["e"]["op"] != "=":
                    return False
                l2 = strip(e2["e"]["l"])
                return l2 is not None and l2.get("k") == "idx" and render(strip(l2["b"])) == ftxt and is_var(strip(l2["i"]), idx) and not is_null(e2["e"].get("r"))
            seenb, workb, gap = set(), [(h, 0)], False
            while workb and not gap:
                bid2, st2 = workb.pop()
                blk2 = f.blocks[bid2]
                stop = False
                for j2 in range(st2, len(blk2.els)):
                    if _is_store(blk2.els[j2]):
                        stop = True
                        break
                    if bid2 == wb.id and j2 == wi:
                        gap = True
                        break
                if stop or gap:
                    continue
                for s2 in f.succ(bid2):
                    if s2 in body and s2 != h and s2 not in seenb:
                        seenb.add(s2)
                        workb.append((s2, 0))
            if gap:
                r.viol("fn=%s %s filled densely" % (f.name, ftxt), f.name, f.loc(wel), "the index '%s' is advanced in rounds that store nothing (a skipped input element still moves it on): the skipped positions stay NULL, so the list "
                       "ends at the first gap for every consumer, the free function leaks what lies behind it, and with enough skipped elements a later store lands past the allocation" % idx)
                continue
            init_w = [w for w in _writes(f, idx) if w[0].id not in body]
            # A: counted loop
            hbr = f.branch(h)
            doneA = False
            if hbr:
                op, hl, hr = norm_cmp(hbr[0], True)
                body_edge_true = hbr[1] in body
                if not body_edge_true:
                    op, hl, hr = norm_cmp(hbr[0], False)
                if hr is not None and op == "<" and is_var(strip(hl)):
                    ctr = strip(hl)["n"]
                    cw = _writes(f, ctr, body)
                    ci = [w for w in _writes(f, ctr) if w[0].id not in body]
                    if len(cw) == 1 and cw[0][2]["e"]["op"] == "++" and ctr != idx:
                        passes = _every_path_to_header_passes(f, b, i, h, body, lambda e2: e2["k"] == "asg" and is_var(strip(e2["e"]["l"]), ctr) and e2["e"]["op"] == "++")
                        i0 = [const_val(w[2]["e"].get("r")) for w in ci if w[2]["e"]["op"] == "="]
                        x0 = [const_val(w[2]["e"].get("r")) for w in init_w if w[2]["e"]["op"] == "="]
                        if passes and i0 and x0 and all(v is not None for v in i0 + x0):
                            doneA = True
                            slack_needed = max(x0) - min(i0) + 1     # C - N must be at least this
                            bad = None
                            for c in counts:
                                d = L.diff(c, hr)
                                if set(d) - {""} or d.get("", 0) < slack_needed:
                                    bad = (c, d)
                            if bad:
                                r.viol(k, f.name, f.loc(el), "the array has %s elements while the loop can store up to %s of them (index %s starts at %d and is advanced once per round of `%s < %s`): no slot is guaranteed for the NULL terminator" % (
                                    render(bad[0]), render(hr), idx, max(x0), ctr, render(hr)))
                            else:
                                r.ok(k + " (counted loop)", f.loc(el), "count %s vs bound %s" % (render(counts[0]), render(hr)))
            if doneA:
                continue
            # B: list walk sized by a counting helper
            x0t = [w[2]["e"].get("r") for w in init_w if w[2]["e"]["op"] == "="]
            walk_ok = False
            cursor = None
            for w in [(bb, ii, e2) for bb, ii, e2 in f.elements() if bb.id in body and e2["k"] == "asg" and e2["e"]["op"] == "=" and is_var(strip(e2["e"]["l"]))]:
                rt = strip(w[2]["e"].get("r"))
                if rt is not None and rt.get("k") == "mem" and is_var(strip(rt["b"]), strip(w[2]["e"]["l"])["n"]):
                    cursor = (strip(w[2]["e"]["l"])["n"], rt["f"])
            if cursor is None:
                r.broke("%s: loop storing %s[%s] is neither a counted loop nor a list walk" % (f.name, ftxt, idx))
                continue
            # the last assignment to idx before the loop: `i = e`
            pre = [w for w in init_w if w[2]["e"]["op"] == "="]
            # choose the definition that reaches: the one in a block that dominates the loop header and is closest (largest line)
            pre = sorted(pre, key=lambda w: w[2].get("ln") or 0)
            pre = [w for w in pre if (w[2].get("ln") or 0) <= (el.get("ln") or 0)]
            if not pre:
                r.broke("%s: start value of %s not found" % (f.name, idx))
                continue
            start = pre[-1][2]["e"].get("r")
            probs = []
            for c in counts:
                d = L.lin(c)
                # C = n + start + 1 where n is a variable defined from a counting helper
                rest = L.diff(c, start)
                nvars = [a for a in rest if a != ""]
                if rest.get("", 0) < 1:
                    probs.append("the allocation has %s elements, the walk starts at %s and stores one per list element: no element is set aside for the terminator" % (render(c), render(start)))
                    continue
                if len(nvars) != 1 or rest[nvars[0]] != 1:
                    probs.append("allocation count %s is not <elements to add> + %s + 1" % (render(c), render(start)))
                    continue
                nv = nvars[0]
                ndefs = [w for w in _writes(f, nv) if w[2]["e"]["op"] == "="]
                g = None
                gcall = None
                for w in ndefs:
                    cc = _resolve_call(f, w[2]["e"].get("r"))
                    if cc is not None:
                        g = prog.resolve(f, cc)
                        gcall = cc
                if g is None:
                    probs.append("%s is not the result of a counting helper" % nv)
                    continue
                # helper: walks list field with the same link member, counts unless skipped
                gl = g.natural_loops()
                gskip = _skip_atoms(g, None)
                lskip = _skip_atoms(f, body, before=(b, i))
                glink = None
                for bb, ii, e2 in g.elements():
                    if e2["k"] == "asg" and e2["e"]["op"] == "=" and is_var(strip(e2["e"]["l"])):
                        rt = strip(e2["e"].get("r"))
                        if rt is not None and rt.get("k") == "mem" and is_var(strip(rt["b"]), strip(e2["e"]["l"])["n"]):
                            glink = (strip(e2["e"]["l"])["n"], rt["f"])
                if glink is None or glink[1] != cursor[1]:
                    probs.append("%s does not walk the list that the store loop walks (link member %s vs %s)" % (g.name, glink and glink[1], cursor[1]))
                    continue
                # rename: helper cursor -> '$', helper params -> call arguments
                ren_g = {glink[0]: "$"}
                for pk, prm in enumerate(g.params):
                    if pk < len(gcall.get("args", [])):
                        ren_g[prm["n"]] = render(strip(gcall["args"][pk]))
                ren_l = {cursor[0]: "$"}
                ga = {_ren(a, ren_g) for a in gskip}
                la = {_ren(a, ren_l) for a in lskip}
                # helper skips an element only if (all of ga hold); the walk skips if (any of la holds).  counted >= stored  <=  (ga all true => some la true)
                # accepted forms: helper never skips, or one of the walk's skip atoms is among the helper's conjuncts
                if ga and not (ga & la):
                    probs.append("%s leaves out elements (%s) that the store loop does not skip (%s): more elements can be stored than were counted" % (g.name, " && ".join(sorted(ga)), " || ".join(sorted(la)) or "none"))
            if probs:
                r.viol(k, f.name, f.loc(el), "; ".join(probs))
            else:
                r.ok(k + " (list walk sized by a counting helper)", f.loc(el))
    r.require(n >= floor, "fewer than %d stores into NULL-terminated hostent arrays found" % floor)


def _ren(a, ren):
    out = a
    for k, v in sorted(ren.items(), key=lambda x: -len(x[0])):
        import re
        out = re.sub(r"(?<![A-Za-z0-9_>.])%s(?![A-Za-z0-9_])" % re.escape(k), v, out)
    return out


def _skip_atoms(f, body, before=None):
    """atoms (text, normalised as 'lhs op rhs') of conditions whose true edge is a `continue` (jumps to the loop's increment / header
    without executing the counting or storing statement).  For the helper (body None): conditions guarding a block without the
    increment.  Returned as a set of texts of the conjuncts that make the element be skipped."""
    out = set()
    loops = f.natural_loops()
    for h, lb in loops.items():
        if body is not None and lb != body:
            continue
        for bid in lb:
            br = f.branch(bid)
            if not br or bid == h:
                continue
            for pol, tgt in ((True, br[1]), (False, br[2])):
                if tgt is None:
                    continue
                blk = f.blocks[tgt]
                # a skip edge: leads to a block with no stores/increments of interest that flows straight back (continue)
                t = blk.term or {}
                if t.get("cls") == "ContinueStmt" or (not blk.els and t.get("cls") in ("ContinueStmt",)):
                    for c, p in atoms(br[0], pol):
                        op, l, rr = norm_cmp(c, p)
                        if rr is None:
                            out.add(("!" if op == "false" else "") + L.text(l))
                        else:
                            a, b2 = L.text(l), L.text(rr)
                            if a > b2 and op in ("==", "!="):
                                a, b2 = b2, a
                            out.add("%s %s %s" % (a, op, b2))
    return out
