"""A struct that a caller declares without initialiser and hands to a filler through a pointer is completely written before the caller reads
it: on every path of the filler to a success return either the whole object was written (memset / struct assignment / byte copy of its
size) or every member the caller reads afterwards was stored; and a whole-object write never follows a member store (it would wipe it).
Forward must-analysis of written members per filler, instances discovered from the call sites."""
from lib import *  # noqa

WHOLE = ("memset", "memcpy", "memmove")


def _uninit_struct_locals(f):
    loc = {}
    for b, i, el in f.elements():
        if el["k"] == "decl":
            for v in el["vars"]:
                ty = v.get("ty", "")
                if v.get("init") is None and not ty.endswith("*") and "[" not in ty and ("struct " in ty or ty.endswith("_t")):
                    loc[v["n"]] = ty
    return loc


def _rec_of(prog, ty):
    t = ty.replace("const ", "").replace("struct ", "").strip()
    rec = prog.records.get(t)
    if rec is None:
        for name, r in prog.records.items():
            if name == t:
                rec = r
    return rec


def _written(prog, g, p, el, depth=0):
    """(set of members of *p certainly written by element el, whole?)"""
    out, whole = set(), False
    if el["k"] == "asg":
        l = strip(el["e"]["l"])
        if l is not None and l.get("k") == "un" and l["op"] == "*" and is_var(strip(l["e"]), p) and el["e"]["op"] == "=":
            whole = True
        x = l
        chain = []
        while x is not None and x.get("k") in ("mem", "idx"):
            if x.get("k") == "mem":
                chain.append(x)
            x = strip(x["b"])
        if chain and is_var(x, p) and chain[-1].get("arrow"):
            out.add(chain[-1]["f"])
    elif el["k"] == "call":
        c = el["e"]
        cal = c.get("callee") or ""
        for k, a in enumerate(c.get("args", [])):
            a2 = strip(a)
            if a2 is None:
                continue
            if is_var(a2, p):
                if cal in WHOLE and k == 0:
                    whole = True
                elif cal.startswith("ares_buf_fetch_bytes") or cal.startswith("ares_buf_tag_fetch"):
                    whole = True
                elif depth < 2:
                    t = prog.resolve(g, c)
                    if t is not None and k < len(t.params):
                        w2, wh2 = must_written(prog, t, t.params[k]["n"], depth + 1)
                        out |= w2
                        whole = whole or wh2
                continue
            # &p->m or p->m (array member) handed to a callee that fills it
            y = a2
            if y.get("k") == "un" and y["op"] == "&":
                y = strip(y["e"])
            chain = []
            while y is not None and y.get("k") in ("mem", "idx"):
                if y.get("k") == "mem":
                    chain.append(y)
                y = strip(y["b"])
            if chain and is_var(y, p) and chain[-1].get("arrow"):
                ptrish = strip(a).get("k") == "un" or "[" in (chain[0].get("ty") or "")
                if ptrish and not c.get("constp", [False] * 32)[k] if isinstance(c.get("constp"), list) and k < len(c.get("constp")) else ptrish:
                    out.add(chain[-1]["f"])
    return out, whole


_memo = {}


def must_written(prog, g, p, depth=0):
    """members of *p written on EVERY path of g to a return that can report success; whole = object written as a whole on all of them"""
    key = (g.key, p)
    if key in _memo:
        return _memo[key]
    _memo[key] = (set(), False)
    retvars = {strip(el.get("e"))["n"] for _, _, el in g.returns() if is_var(strip(el.get("e")))}
    order = g.rpo()

    def edge_dead(bid, succ):
        """the edge is only taken when the call fails or when the out pointer is NULL: irrelevant for 'written on success'"""
        br = g.branch(bid)
        if not br:
            return False
        pol = (br[1] == succ)
        if br[1] == br[2]:
            return False
        for c3, p3 in atoms(br[0], pol):
            op, l3, r3 = norm_cmp(c3, p3)
            ls = strip(l3)
            if is_var(ls) and ls["n"] in retvars and op == "!=" and r3 is not None and name_of_const(r3) in ("ARES_SUCCESS", "ARES_TRUE"):
                return True
            if is_var(ls, p) and ((op == "==" and r3 is not None and is_null(r3)) or op == "false"):
                return True
        return False

    def transfer(bid, cur, upto=None):
        acc, wh, dead = set(cur[0]), cur[1], cur[2]
        els = g.blocks[bid].els
        for j in range(0, len(els) if upto is None else upto):
            el = els[j]
            w, h = _written(prog, g, p, el, depth)
            acc |= w
            wh = wh or h
            if el["k"] == "asg" and el["e"]["op"] == "=" and is_var(strip(el["e"]["l"])) and strip(el["e"]["l"])["n"] in retvars:
                nm = name_of_const(el["e"].get("r"))
                if nm is not None and nm not in ("ARES_SUCCESS", "ARES_TRUE"):
                    dead = True
                else:
                    dead = False
        return (frozenset(acc), wh, dead)

    def join(bid, OUT):
        s0, wh0, any_live = None, True, False
        for x in g.blocks[bid].preds:
            if x not in OUT or OUT[x][2] or edge_dead(x, bid):
                continue
            any_live = True
            s0 = OUT[x][0] if s0 is None else (s0 & OUT[x][0])
            wh0 = wh0 and OUT[x][1]
        if not any_live:
            return None
        return (s0, wh0, False)
    OUT = {}
    changed, it = True, 0
    while changed and it < 60:
        changed = False
        it += 1
        for bid in order:
            cur = (frozenset(), False, False) if bid == g.entry else join(bid, OUT)
            if cur is None:
                if any(x in OUT for x in g.blocks[bid].preds):
                    new = (frozenset(), False, True)      # only reached on failure
                else:
                    continue
            else:
                new = transfer(bid, cur)
            if OUT.get(bid) != new:
                OUT[bid] = new
                changed = True
    mf = MustFacts(g, track_calls=False)
    res, whole, n = None, True, 0
    for b, i, el in g.exits():
        if el is not None:
            nm = name_of_const(el.get("e"))
            if nm is not None and nm not in ("ARES_SUCCESS", "ARES_TRUE", "ARES_CONN_ERR_SUCCESS"):
                continue
            e = strip(el.get("e"))
            if is_null(e):
                continue
            if is_var(e):
                fails = False
                for c3, p3 in mf.cond_facts_at(b, i):
                    op, l3, r3 = norm_cmp(c3, p3)
                    if is_var(strip(l3), e["n"]) and op == "!=" and r3 is not None and name_of_const(r3) in ("ARES_SUCCESS",):
                        fails = True
                if fails:
                    continue
        cur = (frozenset(), False, False) if b.id == g.entry else join(b.id, OUT)
        if cur is None:
            continue
        st = transfer(b.id, cur, upto=(i if el is not None else len(b.els)))
        if st[2]:
            continue
        acc, wh = set(st[0]), st[1]
        n += 1
        res = acc if res is None else (res & acc)
        whole = whole and wh
    if n == 0:
        res, whole = set(), False
    _memo[key] = (res or set(), whole)
    return _memo[key]


def outinit_rule(prog, R, rid, only_types=None, floor=2):
    r = R.rule(rid, "a struct handed uninitialised to a filler is completely written on every successful return before the caller reads it (whole-object write first, "
               "or every member the caller reads); a whole-object write never wipes members stored before it", floor=floor,
               analysis="call-site discovery + forward must-analysis of written members per filler (depth 2)")
    seen = set()
    _memo.clear()
    for f in sorted(prog.funcs.values(), key=lambda x: x.key):
        if not f.file.startswith("src/lib/"):
            continue
        loc = _uninit_struct_locals(f)
        if not loc:
            continue
        for b, i, c in f.calls():
            t = prog.resolve(f, c)
            if t is None or not t.file.startswith("src/lib/"):
                continue
            for k, a in enumerate(c.get("args", [])):
                a2 = strip(a)
                if not (a2 is not None and a2.get("k") == "un" and a2["op"] == "&" and is_var(strip(a2["e"])) and strip(a2["e"])["n"] in loc):
                    continue
                v = strip(a2["e"])["n"]
                if only_types and not any(x in loc[v] for x in only_types):
                    continue
                pre = can_reach_from_entry_avoiding(f, b, i, lambda e2: (e2["k"] == "call" and any(x is not None and render(strip(x)) == "&" + v for x in e2["e"].get("args", []))) or
                                                    (e2["k"] == "asg" and root_var(e2["e"]["l"]) is not None and root_var(e2["e"]["l"])["n"] == v))
                if pre is None or k >= len(t.params):
                    continue
                rec = _rec_of(prog, loc[v])
                if rec is None or len(rec.get("fields", [])) < 2:
                    continue
                p = t.params[k]["n"]
                key = "filler %s(%s) for %s in %s" % (t.name, p, v, f.name)
                if key in seen:
                    continue
                seen.add(key)
                w, whole = must_written(prog, t, p)
                # members the caller reads after the call
                reads = set()
                for (bb, ii) in reach_after(f, b.id, i):
                    e2 = f.blocks[bb].els[ii]
                    for nd in walk(e2.get("e")) if e2.get("e") is not None else []:
                        if nd.get("k") == "mem" and not nd.get("arrow") and is_var(strip(nd["b"]), v):
                            reads.add(nd["f"])
                # a whole-object write that can follow a member store inside the filler
                wipe = None
                for gb, gi, gel in t.elements():
                    wset, wh = _written(prog, t, p, gel)
                    if wh:
                        for (pb, pi) in [(x.id, y) for x, y, z in t.elements() if _written(prog, t, p, z)[0]]:
                            if (gb.id, gi) in reach_after(t, pb, pi):
                                wipe = gel
                if wipe is not None:
                    r.viol(key, t.name, t.loc(wipe), "%s writes the whole of *%s after it has already stored members of it: what was stored before (e.g. a parsed interface name) is wiped" % (t.name, p))
                    continue
                missing = sorted(reads - w) if not whole else []
                if missing:
                    r.viol(key, t.name, t.loc(t.ln), "%s can return success without having written %s of the %s that %s declared without initialiser and reads afterwards: the caller uses whatever its stack held (for a list, the value of the previous entry)" % (
                        t.name, ", ".join("%s->%s" % (p, m) for m in missing), loc[v], f.name))
                else:
                    r.ok(key, t.loc(t.ln), "whole object written" if whole else "members %s written, caller reads %s" % (sorted(w), sorted(reads)))
    r.require(len(seen) >= floor, "fewer than %d uninitialised structs handed to fillers found" % floor)
