"""Rule layer over own.py shared by C02 / C14 / C15 / C19."""
from lib import *  # noqa
import own

# frozen exemptions: (function, variable, kind) -> reason.  Only an exact match is exempt.
EXEMPT = {
    ("ares_pipeevent_create", "p", "leak"):
        "ares_event_update() takes 'data' whenever it creates/updates an event; the SUCCESS-without-capture path is the delete request (flags NONE), not taken with READ flags",
    ("ares_uri_write_query", "keys", "leak"):
        "keys != NULL with num_keys == 0 is impossible: ares_htable_dict_keys returns NULL whenever it reports 0 keys (checked by R-*-OWN on that function)",
    ("ares_open_connection", "conn", "release-after-move"):
        "the connection is taken back from server->connections with ares_llist_node_claim(node) before it is released",
    ("ares_open_connection", "conn->queries_to_conn", "release-after-move"): "member of conn, see conn",
    ("ares_open_connection", "conn->out_buf", "release-after-move"): "member of conn, see conn",
    ("ares_open_connection", "conn->in_buf", "release-after-move"): "member of conn, see conn",
    ("ares_qcache_insert_int", "entry", "release-after-move"):
        "the entry is taken back from the cache map with ares_htable_strvp_remove() before it is released",
    ("ares_qcache_insert_int", "entry->key", "release-after-move"): "member of entry, see entry",
    ("ares_qcache_calc_key", "buf", "leak"):
        "only when dnsrec == NULL: static function, both callers (insert, fetch) pass a record they have already used",
    ("ares_buf_finish_bin", "buf nonreleasing-returns=1", "contract"):
        "the one remaining non-releasing return is the documented misuse path (const buffer)",
    ("ares_array_finish", "arr nonreleasing-returns=1", "contract"):
        "ares_array_move(arr, 0, offset) cannot fail for offset < alloc_cnt: defensive return",
}
for _v in ("hquery", "hquery->ai", "hquery->lookups", "hquery->name", "hquery->names", "ai"):
    EXEMPT[("ares_getaddrinfo_int", _v, "leak")] = ("only via next_dns_lookup()'s default: arm (nothing started, returns TRUE), unreachable because the "
                                                   "address family is validated first; that validation is itself checked by R-C01-ONCE")

# consumption contracts that exemptions above rely on: (function, parameter index, return values) -> on every outcome with one of those
# return values the parameter must have been consumed (released or handed on).  Checked against the inferred summaries on every run.
CONTRACTS = [
    ("fake_addrinfo", 3, ("ARES_TRUE",), "a TRUE result tells ares_getaddrinfo_int that the request is finished and 'ai' no longer its business"),
]

_CACHE = {}


def get_own(prog):
    k = id(prog)
    if k not in _CACHE:
        o = own.Own(prog)
        o.run_files(None)
        o.contracts = o.contract_findings()
        _CACHE.clear()
        _CACHE[k] = o
    return _CACHE[k]


def own_rule(prog, R, rid, files, floor, desc=None, kinds=("leak", "double-release", "release-after-move", "use-after-release", "null-deref", "dangling-reference"),
             include_contract=False):
    r = R.rule(rid, desc or "heap ownership on every path: no leak, double release, release after hand-over, use after release, unchecked allocation", floor=floor,
               analysis="A-OWN (typestate + inferred outcome summaries)")
    o = get_own(prog)
    nfun = 0
    by_func = {}
    for f in prog.funcs.values():
        if files is not None and not (f.file in files):
            continue
        fs = [x for x in o.findings.get(f.key, []) if x["kind"] in kinds or x["kind"] == "leak-defensive"]
        sites = [a for a in o.alloc_sites if a[0] == f.key]
        if not sites and not fs:
            continue
        nfun += 1
        seen = set()
        bad = False
        for x in fs:
            key = "fn=%s var=%s kind=%s" % (f.name, x["var"], x["kind"])
            if key in seen:
                continue
            seen.add(key)
            if x["kind"] == "leak-defensive":
                # a leak that exists only on a path where a pointer argument is NULL.  That is not automatically harmless (NULL can be a
                # documented "skip the output" mode): it is reported like any other leak unless listed, with its reason, in EXEMPT
                key = "fn=%s var=%s kind=leak" % (f.name, x["var"])
                ex = EXEMPT.get((f.name, x["var"], "leak"))
                if ex:
                    r.ok(key + " (exempt: %s)" % ex[:60], "%s:%s" % (f.file, x["ln"]), nontrivial=False)
                else:
                    bad = True
                    r.viol(key, f.name, "%s:%s" % (f.file, x["ln"]), x["msg"])
                continue
            ex = EXEMPT.get((f.name, x["var"], x["kind"]))
            if ex:
                r.ok(key + " (exempt: %s)" % ex[:60], "%s:%s" % (f.file, x["ln"]), nontrivial=False)
                continue
            bad = True
            r.viol(key, f.name, "%s:%s" % (f.file, x["ln"]), x["msg"])
        if not bad:
            r.ok("fn=%s (%d allocation sites)" % (f.name, len(sites)), f.loc(f.ln))
    for (fn, idx, rets, why) in CONTRACTS:
        cands = [f for f in prog.by_name.get(fn, []) if files is None or f.file in files]
        for f in cands:
            summ = o.summary(f) or []
            key = "fn=%s consumes parameter %d when it returns %s" % (fn, idx, "/".join(rets))
            bad = [oc for oc in summ if oc[0] is not None and (set(oc[0]) & set(rets)) and idx not in oc[1]]
            if bad:
                pn = f.params[idx]["n"] if idx < len(f.params) else "?"
                r.viol(key, f.name, f.loc(f.ln), "%s can return %s without having released or handed on '%s' (%s): the caller stops looking after it and it leaks" % (fn, "/".join(rets), pn, why))
            else:
                r.ok(key, f.loc(f.ln))
    if include_contract:
        for x in o.contracts:
            key = "fn=%s var=%s kind=contract" % (x["func"], x["var"])
            ex = EXEMPT.get((x["func"], x["var"], "contract"))
            if ex:
                r.ok(key + " (exempt: %s)" % ex[:60], "%s:%s" % (x["file"], x["ln"]), nontrivial=False)
            else:
                r.viol(key, x["func"], "%s:%s" % (x["file"], x["ln"]), x["msg"])
    r.info["functions_with_allocations"] = nfun
    r.info["alloc_sites_total"] = len(o.alloc_sites)
    r.info["state_cap_exceeded"] = o.gave_up
    r.info["owning_fields"] = len(o.owning_fields())
    if o.gave_up:
        r.info["note"] = "functions whose state cap was exceeded fall back to the naming convention for their summary"
    return r


def realloc_rule(prog, R, rid, floor=5):
    """`p = realloc(p, n)`: on failure p is NULL and the block it pointed to is lost"""
    r = R.rule(rid, "the result of a reallocation is never stored straight back into the pointer that was handed in: on failure the old block would be lost "
               "(and its contents with it)", floor=floor, analysis="call-site census: result holder vs first argument")
    n = 0
    for f in sorted(prog.funcs.values(), key=lambda x: x.key):
        if not f.file.startswith("src/lib/"):
            continue
        for b, i, c in f.calls_to("ares_realloc", "ares_realloc_zero"):
            n += 1
            a0 = render(strip(c["args"][0]))
            holder = None
            for j in range(i + 1, len(b.els)):
                e2 = b.els[j]
                if e2["k"] == "asg" and e2["e"]["op"] == "=":
                    rr = strip(e2["e"].get("r"))
                    if rr is not None and rr.get("k") == "call" and rr.get("id") == c.get("id"):
                        holder = render(strip(e2["e"]["l"]))
                        break
                if e2["k"] == "decl":
                    for v in e2["vars"]:
                        rr = strip(v.get("init")) if v.get("init") is not None else None
                        if rr is not None and rr.get("k") == "call" and rr.get("id") == c.get("id"):
                            holder = v["n"]
            k = "fn=%s realloc(%s) result kept apart" % (f.name, a0)
            if holder is not None and holder == a0:
                r.viol(k, f.name, f.loc(c["ln"]), "%s = %s(%s, ...): when the reallocation fails %s becomes NULL and the block it pointed to (everything collected so far) is leaked; the cleanup that follows frees NULL" % (holder, c["callee"], a0, a0))
            else:
                r.ok(k, f.loc(c["ln"]), nontrivial=False)
    r.require(n >= floor, "fewer than %d reallocation sites found" % floor)
