"""Rules shared by C03 (write -> parse identity) and C04 (parser says what the wire says) about the record parser:

 LIMIT  on the path from ares_dns_parse_buf a failure may be guarded by a magnitude comparison against a literal only where the protocol
        itself sets that limit (frozen table).  An implementation-chosen limit (pointer hops, escaped-name length, ...) makes the parser
        reject messages that are well formed -- and that the library's own writer produces.
 PURE   numeric wire fields reach the record unmodified: the value handed to a record setter is a variable filled by a fetch primitive
        (through copies and casts), not an expression that masks, clamps or replaces it.  Bit-field extraction is confined to the two
        functions whose layout R-C04-BITS checks exactly.
"""
from lib import *  # noqa
import linear as L

PARSE_C = "src/lib/record/ares_dns_parse.c"

LIMIT_OK = {
    ("ares_dns_parse_buf", "qdcount > 1"): "supported subset: exactly one question (stated in the property's 'supported subset')",
    ("ares_dns_parse_buf", "ares_buf_len > 65535"): "a DNS message cannot be longer than 65535 octets (16-bit length prefix)",
}

CONST_OVERWRITE_OK = {
    ("ares_dns_parse_rr", "type", "ARES_REC_TYPE_RAW_RR"): "an undecoded type is kept as a raw record; the wire type itself is stored under ARES_RR_RAW_RR_TYPE (R-C04-MUSTSET)",
}
COND_VALUE_OK = {
    ("ares_dns_parse_rr", "ares_dns_record_rr_add"): "OPT overloads CLASS and TTL (RFC 6891): the record is created with IN/0 and the raw values are decoded by ares_dns_parse_rr_opt",
}
BITS_FUNCS = ("ares_dns_parse_rr_opt", "ares_dns_parse_header")
NUM_SETTERS = {"ares_dns_rr_set_u8": (2,), "ares_dns_rr_set_u16": (2,), "ares_dns_rr_set_u32": (2,),
               "ares_dns_record_rr_add": (4, 5, 6), "ares_dns_record_query_add": (2, 3)}


def _parse_reach(prog):
    root = prog.func("ares_dns_parse_buf")
    reach, work = {}, [root]
    while work:
        f = work.pop()
        if f.key in reach:
            continue
        reach[f.key] = f
        for b, i, c in f.calls():
            t = prog.resolve(f, c)
            if t is not None and t.file.startswith("src/lib/"):
                work.append(t)
    return reach


def _cmp_text(c):
    c = strip(c)
    l, r = strip(c["l"]), strip(c["r"])
    lt = L.text(l)
    if l.get("k") == "call":
        lt = l.get("callee") or "(*)"
    return "%s %s %s" % (lt, c["op"], L.text(r))


def r_limit(prog, R, rid):
    r = R.rule(rid, "on the parse path a failure is guarded by a magnitude comparison against a literal only where the protocol sets that limit: no "
               "implementation-chosen cap (pointer hops, presentation-form length, record counts) rejects a well-formed message", floor=20,
               analysis="A-DOM guard vocabulary over everything reachable from ares_dns_parse_buf + frozen protocol limits")
    reach = _parse_reach(prog)
    r.info["functions_on_parse_path"] = len(reach)
    for f in sorted(reach.values(), key=lambda x: x.key):
        if f.file == "src/lib/str/ares_buf.c" or f.file.startswith("src/lib/dsa/") or f.file.startswith("src/lib/util/") or f.file.startswith("src/lib/str/"):
            continue      # buffer / container primitives: their bounds are checked against the data they hold (R-C02-BUFREAD)
        bad = []
        nb = 0
        for b in f.blocks.values():
            br = f.branch(b)
            if not br:
                continue
            for pol in (True, False):
                tgt = br[1] if pol else br[2]
                if tgt is None:
                    continue
                blk = f.blocks[tgt]
                fails = [el for el in blk.els if (el["k"] == "asg" and is_var(strip(el["e"]["l"]), "status") and (name_of_const(el["e"].get("r")) or "ARES_SUCCESS") != "ARES_SUCCESS")
                         or (el["k"] == "ret" and name_of_const(el.get("e")) not in (None, "ARES_SUCCESS", "ARES_TRUE", "ARES_FALSE"))]
                if not fails:
                    continue
                for c, p in atoms(br[0], pol):
                    op, l, rr = norm_cmp(c, p)
                    if rr is None or const_val(rr) is None or op not in ("<", ">", "<=", ">="):
                        continue
                    rs = strip(rr)
                    if rs.get("k") == "sizeof":
                        continue
                    if (const_val(rr) == 0 and op in (">", "<=")) or (const_val(rr) == 1 and op in (">=", "<")):
                        continue      # an emptiness test written as a magnitude comparison, not a limit
                    nb += 1
                    ct = _cmp_text(c) if p else "!(%s)" % _cmp_text(c)
                    if (f.name, ct) in LIMIT_OK:
                        continue
                    bad.append((b, ct, fails[0]))
        k = "fn=%s fails only on protocol limits" % f.name
        if bad:
            b, ct, fl = bad[0]
            r.viol(k, f.name, f.loc(b.term.get("ln", f.ln)), "%s (on the path of ares_dns_parse) fails when '%s': a limit chosen by the implementation, not by the protocol -- a well-formed message that exceeds it is rejected, including messages the library's own writer produces" % (f.name, ct))
        else:
            r.ok(k, f.loc(f.ln), nontrivial=bool(nb))


def _assignments(f, name):
    out = []
    for b, i, el in f.elements():
        if el["k"] == "asg" and is_var(strip(el["e"]["l"]), name):
            out.append((b, i, el["e"]["op"], el["e"].get("r"), el))
        elif el["k"] == "decl":
            for v in el["vars"]:
                if v["n"] == name and v.get("init") is not None:
                    out.append((b, i, "=", v["init"], el))
    return out


def _fetch_filled(f, name):
    for b, i, c in f.calls():
        if (c.get("callee") or "").startswith(("ares_buf_fetch_", "ares_buf_tag_fetch", "ares_buf_parse_")):
            for a in c.get("args", []):
                a2 = strip(a)
                if a2 is not None and a2.get("k") == "un" and a2["op"] == "&" and is_var(strip(a2["e"]), name):
                    return True
    return False


def _impure(prog, f, e, depth=0, seen=None):
    """None if e carries a wire value unmodified, else a reason string"""
    seen = seen or set()
    e = strip(e)
    if e is None:
        return "missing value"
    if const_val(e) is not None or e.get("k") in ("enum", "int"):
        return None
    k = e.get("k")
    if k == "var":
        nm = e["n"]
        if (f.key, nm) in seen:
            return None
        seen = seen | {(f.key, nm)}
        asg = _assignments(f, nm)
        filled = _fetch_filled(f, nm)
        for b, i, op, rhs, el in asg:
            if op != "=":
                return "'%s' is changed with '%s' after it was read from the wire" % (nm, op)
            rs = strip(rhs)
            cn = name_of_const(rs) if rs is not None else None
            if rs is not None and (const_val(rs) is not None or rs.get("k") in ("enum", "int")):
                # initialisers (before the fetch) are harmless; an overwrite with a constant after the value arrived is not
                if el["k"] == "decl":
                    continue
                if (f.name, nm, cn) in CONST_OVERWRITE_OK:
                    continue
                if filled or any(o2 == "=" and strip(r2) is not None and strip(r2).get("k") == "var" for _, _, o2, r2, _ in asg):
                    return "'%s' is overwritten with the constant %s under a condition after it was read from the wire: the record no longer reports the wire value" % (nm, render(rs))
                continue
            why = _impure(prog, f, rhs, depth, seen)
            if why:
                return why
        pi = f.param_index(nm)
        if pi is not None and not asg and not filled and depth < 3:
            for g, b, i, c in prog.callers_of(f):
                if pi < len(c.get("args", [])):
                    why = _impure(prog, g, c["args"][pi], depth + 1, seen)
                    if why:
                        return "%s (argument '%s' of %s in %s)" % (why, nm, f.name, g.name)
        return None
    if k == "call":
        return None     # a value produced by a helper: its own stores are checked where it builds them
    if k == "mem" or k == "idx" or (k == "un" and e["op"] in ("*", "&")):
        return None
    if k == "cond":
        return "cond"
    return "the value stored is the expression %s, not the field as read from the wire" % render(e)


def r_pure(prog, R, rid):
    r = R.rule(rid, "numeric wire fields reach the record unmodified: what a record setter is handed is the variable the fetch primitive filled (through copies "
               "and casts), never a masked, clamped or replaced value; bit-field extraction only in the functions whose layout R-C04-BITS checks", floor=8,
               analysis="def-use purity of setter arguments (interprocedural through parameters, depth 3) + frozen overloads")
    n = 0
    for f in sorted(prog.funcs.values(), key=lambda x: x.key):
        if f.file != PARSE_C:
            continue
        for b, i, c in f.calls():
            pos = NUM_SETTERS.get(c.get("callee"))
            if not pos:
                continue
            for p in pos:
                if p >= len(c.get("args", [])):
                    continue
                n += 1
                a = c["args"][p]
                k = "fn=%s %s arg%d = %s" % (f.name, c["callee"], p, render(strip(a))[:50])
                if f.name in BITS_FUNCS:
                    r.ok(k + " (bit layout decided by R-C04-BITS)", f.loc(c["ln"]), nontrivial=False)
                    continue
                why = _impure(prog, f, a)
                if why == "cond":
                    if (f.name, c["callee"]) in COND_VALUE_OK:
                        # the alternatives themselves must be pure
                        a2 = strip(a)
                        w2 = _impure(prog, f, a2["t"]) or _impure(prog, f, a2["f"])
                        if not w2:
                            # the overload applies exactly to the record that is created as OPT: the selecting test compares the very
                            # expression handed over as the record's type (otherwise a raw-kept OPT loses its CLASS/TTL, or a non-OPT does)
                            cnd = strip(a2["c"])
                            if is_var(cnd):
                                ds = [x for x in _assignments(f, cnd["n"]) if x[2] == "="]
                                cnd = strip(ds[0][3]) if len(ds) == 1 else cnd
                            op_, l_, r_ = norm_cmp(cnd, True)
                            tyarg = c["args"][4] if len(c["args"]) > 4 else None
                            if r_ is None or op_ not in ("==", "!=") or name_of_const(r_) != "ARES_REC_TYPE_OPT":
                                r.broke("%s: selecting test of the OPT overload not recognised (%s)" % (f.name, render(cnd)))
                                continue
                            if render(strip(l_)) != render(strip(tyarg)):
                                w2 = ("the CLASS/TTL overload of OPT is selected by '%s' while the record is created with type '%s': a record kept raw (ARES_DNS_PARSE_*_EXT_RAW) that is an OPT on the wire "
                                      "is stored with class IN and ttl 0 instead of its wire values (UDP size, extended RCODE, version, DO bit are lost and re-written wrong)" % (render(cnd), render(strip(tyarg))))
                        if not w2:
                            r.ok(k + " (frozen overload)", f.loc(c["ln"]))
                            continue
                        why = w2
                    else:
                        why = "the value stored is chosen by a condition (%s)" % render(strip(a))
                if why:
                    r.viol(k, f.name, f.loc(c["ln"]), "%s: %s -- the parsed record disagrees with the wire bytes (and with what the writer would emit for it)" % (c["callee"], why))
                else:
                    r.ok(k, f.loc(c["ln"]))
    r.require(n >= 8, "fewer than 8 numeric setter arguments found in the record parser")


def _is_false_test(c3, p3):
    """the atom says 'the call returned false': !f(), f() == ARES_FALSE / 0, (f() != ARES_TRUE)"""
    op, l3, r3 = norm_cmp(c3, p3)
    if op == "false":
        return True
    if r3 is not None and op == "==" and (name_of_const(r3) == "ARES_FALSE" or const_val(r3) == 0):
        return True
    if r3 is not None and op == "!=" and name_of_const(r3) == "ARES_TRUE":
        return True
    return False


def r_valid(prog, R, rid):
    """what the parser demands of a character-string field, the writer demands too"""
    r = R.rule(rid, "the writer refuses what the parser would refuse: a character-string field is written only if it is printable (the parser validates that), and a "
               "field the parser requires to be non-empty is not written empty -- otherwise a record built through the API serialises but does not parse back", floor=6,
               analysis="A-TAB sibling agreement of per-key constraints (parser call flags vs writer guards)")
    WRITE_C = "src/lib/record/ares_dns_write.c"
    # parser side
    p_str = prog.func("ares_buf_parse_dns_str", required=False)
    printable = False
    if p_str is not None:
        for b, i, c in p_str.calls():
            if (c.get("callee") or "").endswith("binstr_int") and c.get("args") and name_of_const(c["args"][-1]) == "ARES_TRUE":
                printable = True
    r.info["parser_validates_printable"] = printable
    pkeys = {}
    for f in prog.funcs.values():
        if f.file != PARSE_C:
            continue
        for b, i, c in f.calls_to("ares_dns_parse_and_set_dns_str"):
            key = name_of_const(c["args"][3])
            blank = name_of_const(c["args"][4])
            if key:
                pkeys[key] = {"nonblank": blank == "ARES_FALSE", "printable": printable, "fn": f.name}
    if not r.require(len(pkeys) >= 6, "fewer than 6 character-string keys found in the parser"):
        return
    # writer side: the shared string writer checks printability?
    wstr = prog.func("ares_dns_write_rr_str", file=WRITE_C)
    w_print = False
    for b in wstr.blocks.values():
        br = wstr.branch(b)
        if not br:
            continue
        for pol in (True, False):
            tgt = br[1] if pol else br[2]
            if tgt is None:
                continue
            if not any(e2["k"] == "ret" and name_of_const(e2.get("e")) not in (None, "ARES_SUCCESS") for e2 in wstr.blocks[tgt].els):
                continue
            for c3, p3 in atoms(br[0], pol):
                cs = strip(norm_cmp(c3, p3)[1])
                if cs is not None and cs.get("k") == "call":
                    full = wstr.call_by_id(cs["id"]) if cs.get("ref") else None
                    cn = full[2] if full else cs
                    if cn.get("callee") == "ares_str_isprint" and _is_false_test(c3, p3):
                        w_print = True
    # strings stored outside the character-string format (URI target): the parser validates them in place before ares_dns_rr_set_str_own
    for f in sorted(prog.funcs.values(), key=lambda x: x.key):
        if f.file != PARSE_C or not f.calls_to("ares_str_isprint"):
            continue
        for b, i, c in f.calls_to("ares_dns_rr_set_str_own"):
            key = name_of_const(c["args"][1])
            if key is None or key in pkeys:
                continue
            k = "key %s: writer enforces the parser's constraints" % key
            wf = [(g, c2) for g in prog.funcs.values() if g.file == WRITE_C for _, _, c2 in g.calls_to("ares_dns_rr_get_str") if name_of_const(c2["args"][1]) == key]
            if not wf:
                r.broke("no writer for string key %s" % key)
                continue
            g, c2 = wf[0]
            checks = False
            for bb in g.blocks.values():
                br = g.branch(bb)
                if not br:
                    continue
                for pol in (True, False):
                    tgt = br[1] if pol else br[2]
                    if tgt is None or not any(e2["k"] == "ret" and name_of_const(e2.get("e")) not in (None, "ARES_SUCCESS") for e2 in g.blocks[tgt].els):
                        continue
                    for c3, p3 in atoms(br[0], pol):
                        cs = strip(norm_cmp(c3, p3)[1])
                        if cs is not None and cs.get("k") == "call":
                            full = g.call_by_id(cs["id"]) if cs.get("ref") else None
                            cn = full[2] if full else cs
                            if cn.get("callee") == "ares_str_isprint" and _is_false_test(c3, p3):
                                checks = True
            if checks:
                r.ok(k, g.loc(c2["ln"]))
            else:
                r.viol(k, g.name, g.loc(c2["ln"]), "the parser accepts only printable characters for %s (%s checks ares_str_isprint), %s emits any byte: a record set up through the API is serialised successfully but the bytes do not parse back" % (key, f.name, g.name))
    for key, pc in sorted(pkeys.items()):
        writers = [(f, b, i, c) for f in prog.funcs.values() if f.file == WRITE_C for b, i, c in f.calls_to("ares_dns_write_rr_str") if name_of_const(c["args"][2]) == key]
        if not writers:
            r.broke("no writer for character-string key %s" % key)
            continue
        f, b, i, c = writers[0]
        k = "key %s: writer enforces the parser's constraints" % key
        probs = []
        if pc["printable"] and not w_print:
            probs.append("the parser accepts only printable characters in this string, the writer emits any byte")
        if pc["nonblank"]:
            guarded = False
            holders = set()
            for b2, i2, e2 in f.elements():
                rhs = None
                if e2["k"] == "asg" and is_var(strip(e2["e"]["l"])):
                    rhs, nm = e2["e"].get("r"), strip(e2["e"]["l"])["n"]
                elif e2["k"] == "decl":
                    for v in e2["vars"]:
                        if v.get("init") is not None:
                            rhs, nm = v["init"], v["n"]
                if rhs is not None:
                    rr = strip(rhs)
                    if rr is not None and rr.get("k") == "call":
                        full = f.call_by_id(rr["id"]) if rr.get("ref") else None
                        cn = full[2] if full else rr
                        if cn.get("callee") == "ares_dns_rr_get_str" and name_of_const(cn["args"][1]) == key:
                            holders.add(nm)
            for bb in f.blocks.values():
                br = f.branch(bb)
                if not br:
                    continue
                for pol in (True, False):
                    tgt = br[1] if pol else br[2]
                    if tgt is None or not any(e2["k"] == "ret" and name_of_const(e2.get("e")) not in (None, "ARES_SUCCESS") for e2 in f.blocks[tgt].els):
                        continue
                    for c3, p3 in atoms(br[0], pol):
                        op, l3, r3 = norm_cmp(c3, p3)
                        ls = strip(l3)
                        if ls is not None and ls.get("k") == "call":
                            full = f.call_by_id(ls["id"]) if ls.get("ref") else None
                            cn = full[2] if full else ls
                            if cn.get("callee") == "ares_strlen" and is_var(strip(cn["args"][0])) and strip(cn["args"][0])["n"] in holders and ((op == "==" and r3 is not None and const_val(r3) == 0) or op == "false"):
                                guarded = True
            if not guarded:
                probs.append("the parser rejects an empty string here, %s writes one" % f.name)
        if probs:
            r.viol(k, f.name, f.loc(c["ln"]), "; ".join(probs) + ": a record set up through the API is serialised successfully but the bytes do not parse back")
        else:
            r.ok(k, f.loc(c["ln"]))


def r_rcode(prog, R, rid):
    r = R.rule(rid, "a header value the wire form cannot carry makes the write fail; it is never silently replaced by another value", floor=1,
               analysis="def-use: constants substituted into the header word")
    f = prog.func("ares_dns_write_header", required=False)
    if not r.require(f is not None, "ares_dns_write_header not found"):
        return
    # locals or'ed into the word that is appended
    feeds = set()
    for b, i, el in f.elements():
        if el["k"] == "asg" and el["e"]["op"] == "|=" and is_var(strip(el["e"]["l"])) and is_var(strip(el["e"].get("r"))):
            feeds.add(strip(el["e"]["r"])["n"])
    n = 0
    for v in sorted(feeds):
        subs = [(b, i, el) for b, i, el in f.elements() if el["k"] == "asg" and el["e"]["op"] == "=" and is_var(strip(el["e"]["l"]), v) and strip(el["e"].get("r")) is not None
                and strip(el["e"]["r"]).get("k") == "enum"]
        n += 1
        k = "%s above 15 needs an OPT RR" % v if v == "rcode" else "header part %s written as stored" % v
        if subs:
            b, i, el = subs[0]
            r.viol(k, f.name, f.loc(el), "ares_dns_write_header writes %s instead of the record's %s when the value does not fit the header (no OPT RR to carry the upper bits): the message is serialised successfully but parses back with a different %s" % (
                render(el["e"]["r"]), v, v))
        else:
            r.ok(k, f.loc(f.ln))
    r.require(n >= 1, "ares_dns_write_header: no header part found")


def _full_scan(prog, f, depth=0):
    """None if f visits every RR of the additional section looking for OPT, else a reason"""
    getters = ("ares_dns_record_rr_get", "ares_dns_record_rr_get_const")
    for h, body in f.natural_loops().items():
        br = f.branch(h)
        if not br:
            continue
        pol = br[1] in body
        op, l, rr = norm_cmp(br[0], pol)
        if rr is None or op != "<" or not is_var(strip(l)):
            continue
        iv = strip(l)["n"]
        bound = strip(rr)
        bc = None
        if bound is not None and bound.get("k") == "call":
            bc = f.call_by_id(bound["id"])[2] if bound.get("ref") else bound
        elif bound is not None and bound.get("k") == "var":
            for b, i, op2, rhs, el in _assignments(f, bound["n"]):
                r2 = strip(rhs)
                if r2 is not None and r2.get("k") == "call":
                    bc = f.call_by_id(r2["id"])[2] if r2.get("ref") else r2
        if bc is None or bc.get("callee") != "ares_dns_record_rr_cnt" or "ARES_SECTION_ADDITIONAL" not in render(bc["args"][1]):
            continue
        asg = _assignments(f, iv)
        inits = [a for a in asg if a[0].id not in body]
        steps = [a for a in asg if a[0].id in body]
        if not inits or any(const_val(a[3]) != 0 for a in inits):
            return "the scan of the additional section does not start at its first record"
        if len(steps) != 1 or steps[0][2] != "++":
            return "the scan index is not advanced by exactly one per round"
        fetch = [c for b, i, c in f.calls() if b.id in body and c.get("callee") in getters and len(c.get("args", [])) == 3 and is_var(strip(c["args"][2]), iv)
                 and "ARES_SECTION_ADDITIONAL" in render(c["args"][1])]
        if not fetch:
            return "the loop over the additional section does not fetch the record at the loop index"
        return None
    # a thin wrapper around a sibling that scans
    if depth < 2:
        for b, i, c in f.calls():
            t = prog.resolve(f, c)
            if t is not None and t.name.startswith("ares_dns_get_opt_rr") and t.key != f.key:
                return _full_scan(prog, t, depth + 1)
    return "no loop over all records of the additional section (index 0 .. ares_dns_record_rr_cnt(ADDITIONAL))"


def r_optscan(prog, R, rid):
    r = R.rule(rid, "the OPT pseudo-record is found wherever it stands in the additional section: the lookup walks index 0 .. rr_cnt(ADDITIONAL) one by one (the header writer asks it "
               "whether an extended RCODE can be carried, the parser and the EDNS/cookie code ask it for the record; RFC 6891 does not make OPT the last record)", floor=2,
               analysis="induction-variable shape of the lookup loop (start 0, step 1, bound = section count, fetch at the index)")
    for nm in ("ares_dns_get_opt_rr", "ares_dns_get_opt_rr_const"):
        f = prog.by_name.get(nm)
        f = f[0] if isinstance(f, list) and f else f
        if f is None:
            r.broke("%s not found" % nm)
            continue
        why = _full_scan(prog, f)
        k = "fn=%s scans the whole additional section" % nm
        if why:
            r.viol(k, f.name, f.loc(f.ln), "%s: %s -- with another record behind the OPT record the writer believes there is no OPT, writes the low 4 bits of an extended RCODE only (BADCOOKIE goes out as "
                   "SERVFAIL in the header while the OPT record still carries the high bits) and the parsed message reports a different RCODE" % (nm, why))
        else:
            r.ok(k, f.loc(f.ln))


def r_qdcount(prog, R, rid):
    r = R.rule(rid, "the writer refuses a question count the parser refuses: the parser takes exactly one question (0 and >1 are ARES_EBADRESP), so a record with another count must not "
               "serialise successfully into a message that cannot be read back", floor=1,
               analysis="sibling agreement: rejecting guards on QDCOUNT in ares_dns_parse_buf vs a failing guard on ares_dns_record_query_cnt on the write path")
    pf = prog.func("ares_dns_parse_buf")
    pguards = []
    for b in pf.blocks.values():
        br = pf.branch(b)
        if not br:
            continue
        for c, p_ in atoms(br[0], True):
            op, l, rr = norm_cmp(c, p_)
            if is_var(strip(l), "qdcount") and rr is not None and const_val(rr) is not None:
                pguards.append("%s %s" % (op, const_val(rr)))
    if not r.require(len(pguards) >= 1, "ares_dns_parse_buf: no guard on qdcount found"):
        return
    r.info["parser_guards_on_qdcount"] = sorted(pguards)
    root = prog.func("ares_dns_write_buf_int") if "ares_dns_write_buf_int" in prog.by_name else prog.func("ares_dns_write_buf")
    reach, work = {}, [root]
    while work:
        f = work.pop()
        if f.key in reach:
            continue
        reach[f.key] = f
        for b, i, c in f.calls():
            t = prog.resolve(f, c)
            if t is not None and t.file.startswith("src/lib/record/ares_dns_write"):
                work.append(t)
    found = None
    for f in reach.values():
        for g in call_result_branches(f, "ares_dns_record_query_cnt"):
            for pol, tgt in ((True, g["true"]), (False, g["false"])):
                if tgt is None:
                    continue
                blk = f.blocks[tgt]
                if any((el["k"] == "ret" and name_of_const(el.get("e")) not in (None, "ARES_SUCCESS")) or
                       (el["k"] == "asg" and is_var(strip(el["e"]["l"]), "status") and name_of_const(el["e"].get("r")) not in (None, "ARES_SUCCESS")) for el in blk.els):
                    found = (f, g)
    k = "writer fails for a question count other than one"
    if found:
        r.ok(k, found[0].loc(found[1]["call"]["ln"]))
    else:
        hf = prog.func("ares_dns_write_header")
        r.viol(k, hf.name, hf.loc(hf.ln), "the parser rejects QDCOUNT %s, the write path (%d functions from %s) never tests ares_dns_record_query_cnt: a record with no question, or with two, is written "
               "successfully and the result fails to parse (ARES_EBADRESP)" % (" and ".join(sorted(set(pguards))), len(reach), root.name))


def r_optlen(prog, R, rid):
    r = R.rule(rid, "an option is stored with a length only if its value bytes are there: the writers announce the stored length and append the value only when it is non-NULL, so "
               "(value NULL, length > 0) must not be storable -- the message would announce bytes it does not carry and fail to parse", floor=1,
               analysis="disjunctive forward analysis over (value NULL?, length 0?) at the stores of ares_dns_rr_set_opt_own, refined at branches")
    f = prog.func("ares_dns_rr_set_opt_own")
    vp = [p_["n"] for p_ in f.params if (p_.get("ty") or "").replace(" ", "") == "unsignedchar*"]
    lp = [p_["n"] for p_ in f.params if p_["n"].endswith("len")]
    if not r.require(len(vp) == 1 and len(lp) == 1, "ares_dns_rr_set_opt_own: value/length parameters not recognised"):
        return
    vn, ln_ = vp[0], lp[0]

    def transfer(st, blk, i, el):
        return [st]

    def refine(st, cond, pol, blk):
        v0, l0 = st
        for c, p_ in atoms(cond, pol):
            op, l, rr = norm_cmp(c, p_)
            ls = strip(l)
            if is_var(ls, vn):
                isnull = True if op == "false" else False if op == "truth" else ((op == "==") if (op in ("==", "!=") and rr is not None and is_null(rr)) else None)
                if isnull is True:
                    if v0 == "Y":
                        return None
                    v0 = "N"
                elif isnull is False:
                    if v0 == "N":
                        return None
                    v0 = "Y"
            if is_var(ls, ln_):
                zero = True if op == "false" else False if op == "truth" else None
                if op in ("==", "!=") and rr is not None and const_val(rr) == 0:
                    zero = (op == "==")
                if op == ">" and rr is not None and const_val(rr) == 0:
                    zero = False
                if op == "<=" and rr is not None and const_val(rr) == 0:
                    zero = True
                if zero is True:
                    if l0 == "NZ":
                        return None
                    l0 = "Z"
                elif zero is False:
                    if l0 == "Z":
                        return None
                    l0 = "NZ"
        return (v0, l0)
    at = forward_states(f, ("?", "?"), transfer, refine)
    stores = [(b, i, el) for b, i, el in f.elements() if el["k"] == "asg" and is_field(el["e"]["l"], "val_len") and is_var(strip(el["e"].get("r")), ln_)]
    if not r.require(bool(stores), "ares_dns_rr_set_opt_own: store of the option length not found"):
        return
    for b, i, el in stores:
        sts = at.get((b.id, i), set())
        bad = [st for st in sts if st[0] in ("N", "?") and st[1] in ("NZ", "?")]
        k = "fn=%s length stored only with its value" % f.name
        if bad or not sts:
            r.viol(k, f.name, f.loc(el), "'%s' can be reached with %s == NULL and %s != 0: ares_dns_rr_set_opt(rr, key, opt, NULL, n) stores an option of length n without bytes; the writers emit the length and "
                   "skip the value ('if (val && val_len)'), so the serialised message announces n bytes it does not contain and does not parse back" % (el.get("t", ""), vn, ln_))
        else:
            r.ok(k, f.loc(el))


def r_preslimit(prog, R, rid):
    r = R.rule(rid, "writing a name never fails on the length of its presentation (escaped) form: the protocol limits are 63 octets per label and 255 per name on the wire, and a legal "
               "name can take up to four characters per octet when escaped -- a cap on strlen() of the text rejects names the parser itself reports", floor=1,
               analysis="A-DOM guard vocabulary over everything reachable from ares_dns_name_write: failing guards that compare ares_strlen(..) with a literal")
    root = prog.func("ares_dns_name_write")
    reach, work = {}, [root]
    while work:
        f = work.pop()
        if f.key in reach:
            continue
        reach[f.key] = f
        for b, i, c in f.calls():
            t = prog.resolve(f, c)
            if t is not None and t.file == root.file:
                work.append(t)
    n = 0
    for f in sorted(reach.values(), key=lambda x: x.key):
        bad = None
        for b in f.blocks.values():
            br = f.branch(b)
            if not br:
                continue
            for pol, tgt in ((True, br[1]), (False, br[2])):
                if tgt is None:
                    continue
                blk = f.blocks[tgt]
                if not any((el["k"] == "ret" and name_of_const(el.get("e")) not in (None, "ARES_SUCCESS", "ARES_TRUE", "ARES_FALSE")) or
                           (el["k"] == "asg" and is_var(strip(el["e"]["l"]), "status") and (name_of_const(el["e"].get("r")) or "ARES_SUCCESS") != "ARES_SUCCESS") for el in blk.els):
                    continue
                for c, p_ in atoms(br[0], pol):
                    op, l, rr = norm_cmp(c, p_)
                    if rr is None or const_val(rr) is None or op not in ("<", ">", "<=", ">="):
                        continue
                    if (const_val(rr) == 0 and op in (">", "<=")) or (const_val(rr) == 1 and op in (">=", "<")):
                        continue
                    if strip(rr).get("k") == "sizeof":
                        continue      # capacity of a local buffer sized for the worst case (R-C03-OFF / the 1024-byte copy): not a protocol statement
                    ls = strip(l)
                    srcs = [ls]
                    if is_var(ls):
                        srcs = [strip(x[3]) for x in _assignments(f, ls["n"])]
                    for s_ in srcs:
                        if s_ is not None and s_.get("k") == "call":
                            cc = f.call_by_id(s_["id"])[2] if s_.get("ref") else s_
                            if cc.get("callee") in ("ares_strlen", "strlen"):
                                bad = (b, "%s %s %s" % (render(strip(l)), op, const_val(rr)))
        n += 1
        k = "fn=%s does not cap the presentation length" % f.name
        if bad:
            r.viol(k, f.name, f.loc(bad[0].term.get("ln", f.ln)), "%s (on the path of ares_dns_name_write) fails when '%s': a name whose escaped text is longer than that -- one 63-octet label of "
                   "non-printable bytes is 252 characters -- is legal (the parser reports it) but cannot be written, so ares_dns_write and ares_dns_record_duplicate fail for the whole message" % (f.name, bad[1]))
        else:
            r.ok(k, f.loc(f.ln))
    r.require(n >= 3, "write path of names not found")


def _mentions_backslash(f):
    for b in f.blocks.values():
        br = f.branch(b)
        if br and any(const_val(x) == 92 for x in walk(br[0]) if isinstance(x, dict)):
            return True
    return False


def r_suffix(prog, R, rid):
    r = R.rule(rid, "the compression lookup matches a stored name only at a label boundary: the '.' in front of the matched suffix is a separator, not an escaped dot that belongs to a label "
               "(the splitter treats '\\.' as a literal dot; the matcher must look at the escape character too, or 'a\\.example.com' after 'example.com' is cut inside a label)", floor=1,
               analysis="must-pass-through: every path to the acceptance of a match passes a test of the escape character (in the function or a helper of the same file)")
    f = prog.func("ares_nameoffset_find")
    acc = [(b, i, el) for b, i, el in f.elements() if el["k"] == "asg" and is_var(strip(el["e"]["l"])) and strip(el["e"]["l"])["n"].startswith("longest") and not is_null(el["e"].get("r"))]
    if not r.require(bool(acc), "ares_nameoffset_find: acceptance of a match not found"):
        return
    helpers = set()
    for b, i, c in f.calls():
        t = prog.resolve(f, c)
        if t is not None and t.file == f.file and _mentions_backslash(t):
            helpers.add(c.get("id"))
    loops = f.natural_loops()
    accb = acc[0][0].id
    outer = [h for h, body in loops.items() if accb in body]
    outer_h = max(outer, key=lambda h: len(loops[h])) if outer else None
    into_outer = [(p_, outer_h) for p_ in f.blocks[outer_h].preds] if outer_h is not None else []
    tblocks = {b.id for b in f.blocks.values() if f.branch(b) and any(const_val(x) == 92 for x in walk(f.branch(b)[0]) if isinstance(x, dict))}
    # variables that carry what the escape test found: written inside a loop (other than the walk over the stored names) that contains such a test
    evars = set()
    for h, body in loops.items():
        if h == outer_h or not (tblocks & body):
            continue
        for bid in body:
            for el in f.blocks[bid].els:
                evars |= set(written_vars(el))
    def rejecting(bid, succ):
        pr = reach_avoiding(f, succ, into_outer, None, 0)
        return succ != accb and accb not in pr
    avoid = []
    gates = 0
    for b in f.blocks.values():
        br = f.branch(b)
        if not br:
            continue
        inner = any(b.id in body for h, body in loops.items() if h != outer_h and (tblocks & body))
        mentions = b.id in tblocks or any(v["n"] in evars for v in vars_in(br[0]))
        if mentions and not inner and any(rejecting(b.id, s_) for s_ in f.succ(b.id)):
            gates += 1
            avoid += [(b.id, s_) for s_ in f.succ(b.id)]
    r.info["escape_gates"] = gates
    # with fewer than two characters in front of the suffix there is no room for a backslash: such edges are not bypasses
    pv = set()
    for b, i, el in f.elements():
        for x in walk(el.get("e")):
            if isinstance(x, dict) and x.get("k") == "idx":
                pv |= {v["n"] for v in vars_in(x["i"])}
    for b in f.blocks.values():
        br = f.branch(b)
        if br:
            for x in walk(br[0]):
                if isinstance(x, dict) and x.get("k") == "idx":
                    pv |= {v["n"] for v in vars_in(x["i"])}
    for b in f.blocks.values():
        br = f.branch(b)
        if not br:
            continue
        for pol, tgt in ((True, br[1]), (False, br[2])):
            if tgt is None:
                continue
            for c, p_ in atoms(br[0], pol):
                op, l, rr = norm_cmp(c, p_)
                cv = const_val(rr) if rr is not None else None
                if is_var(strip(l)) and strip(l)["n"] in pv and ((op == "false") or (cv is not None and ((op == "<" and cv <= 2) or (op == "<=" and cv <= 1) or (op == "==" and cv in (0, 1))))):
                    avoid.append((b.id, tgt))
    barrier = lambda el: el["k"] == "call" and el["e"].get("id") in helpers
    for b, i, el in acc:
        k = "match accepted only behind an escape-aware separator test"
        tr = element_reachable_avoiding(f, b, i, avoid, barrier)
        if tr is not None:
            r.viol(k, f.name, f.loc(el), "a stored name is accepted as the suffix of the name being written on a path that never looks at the escape character: for 'a\\.example.com' after 'example.com' "
                   "the escaped dot is taken for a separator, the name is cut to 'a\\' + pointer, and the write fails with EBADNAME (a legal name that cannot be written)")
        else:
            r.ok(k, f.loc(el))


BLANK_FORBIDDEN = {"ARES_RR_CAA_TAG": "RFC 8659 4.1: the tag length is at least 1"}


def r_blank(prog, R, rid):
    r = R.rule(rid, "a character-string the RFCs allow to be empty is parsed with blank_allowed: HINFO CPU/OS (RFC 1035), NAPTR FLAGS/SERVICES/REGEXP (RFC 3403); only the CAA tag must be "
               "non-empty -- otherwise a well-formed message (a non-terminal NAPTR has an empty SERVICES field) is rejected as a whole", floor=5,
               analysis="A-TAB: constant blank_allowed argument per record key, frozen RFC table of the keys that must not be blank")
    n = 0
    for f in sorted(prog.funcs.values(), key=lambda x: x.key):
        if f.file != PARSE_C:
            continue
        for b, i, c in f.calls():
            if c.get("callee") != "ares_dns_parse_and_set_dns_str" or len(c.get("args", [])) < 5:
                continue
            key = name_of_const(c["args"][3])
            flag = name_of_const(c["args"][4])
            if key is None:
                continue
            n += 1
            k = "fn=%s key=%s blank_allowed" % (f.name, key)
            want = "ARES_FALSE" if key in BLANK_FORBIDDEN else "ARES_TRUE"
            if flag == want:
                r.ok(k, f.loc(c["ln"]))
            elif flag is None:
                r.broke("%s: blank_allowed for %s is not a constant" % (f.name, key))
            elif want == "ARES_TRUE":
                r.viol(k, f.name, f.loc(c["ln"]), "%s parses %s with blank_allowed = %s: an empty string is legal there, the whole message is refused with EBADRESP" % (f.name, key, flag))
            else:
                r.viol(k, f.name, f.loc(c["ln"]), "%s parses %s with blank_allowed = %s although %s" % (f.name, key, flag, BLANK_FORBIDDEN[key]))
    r.require(n >= 5, "fewer character-string fields than confirmed by hand (%d)" % n)


def r_caaval(prog, R, rid):
    r = R.rule(rid, "the writer refuses an empty CAA value as long as the parser does: ares_dns_write_rr_caa cannot return success (or go on to append) with a value length of 0 while "
               "ares_dns_parse_rr_caa fails on a remaining length of 0", floor=1,
               analysis="sibling agreement: parser guard on the remaining length vs forward analysis (length 0?) of the writer up to every non-failing return")
    pf = prog.func("ares_dns_parse_rr_caa")
    rejects = False
    for b in pf.blocks.values():
        br = pf.branch(b)
        if not br:
            continue
        for pol, tgt in ((True, br[1]), (False, br[2])):
            if tgt is None:
                continue
            for c, p_ in atoms(br[0], pol):
                op, l, rr = norm_cmp(c, p_)
                if is_var(strip(l)) and ((op == "==" and rr is not None and const_val(rr) == 0) or op == "false"):
                    srcs = [strip(x[3]) for x in _assignments(pf, strip(l)["n"])]
                    if any(s_ is not None and s_.get("k") == "call" and (pf.call_by_id(s_["id"])[2] if s_.get("ref") else s_).get("callee") == "ares_dns_rr_remaining_len" for s_ in srcs):
                        blk = pf.blocks[tgt]
                        if any((el["k"] == "ret" and name_of_const(el.get("e")) not in (None, "ARES_SUCCESS")) or (el["k"] == "asg" and is_var(strip(el["e"]["l"]), "status") and name_of_const(el["e"].get("r")) not in (None, "ARES_SUCCESS")) for el in blk.els):
                            rejects = True
    wf = prog.func("ares_dns_write_rr_caa")
    lv = None
    site = None
    for b, i, c in wf.calls():
        if c.get("callee") == "ares_dns_rr_get_bin" and len(c.get("args", [])) == 3 and "ARES_RR_CAA_VALUE" in render(c["args"][1]):
            a = strip(c["args"][2])
            if a is not None and a.get("k") == "un" and a["op"] == "&" and is_var(strip(a["e"])):
                lv, site = strip(a["e"])["n"], (b.id, i)
    if not r.require(lv is not None, "ares_dns_write_rr_caa: length variable of the CAA value not found"):
        return
    k = "writer and parser agree on the empty CAA value"
    if not rejects:
        r.ok(k, pf.loc(pf.ln), "the parser accepts an empty value: nothing for the writer to refuse")
        return

    def transfer(st, blk, i, el):
        if el["k"] == "call" and (blk.id, i) == site:
            return ["?"]
        return [st]

    def refine(st, cond, pol, blk):
        for c, p_ in atoms(cond, pol):
            op, l, rr = norm_cmp(c, p_)
            if not is_var(strip(l), lv):
                continue
            zero = True if op == "false" else False if op == "truth" else None
            if rr is not None and const_val(rr) == 0:
                zero = {"==": True, "!=": False, ">": False, "<=": True}.get(op, zero)
            if rr is not None and const_val(rr) == 1:
                zero = {"<": True, ">=": False}.get(op, zero)
            if zero is True:
                if st == "NZ":
                    return None
                st = "Z"
            elif zero is False:
                if st == "Z":
                    return None
                st = "NZ"
        return st
    at = forward_states(wf, "-", transfer, refine)
    bad = None
    for b, i, el in wf.returns():
        nm = name_of_const(el.get("e"))
        if nm is not None and nm != "ARES_SUCCESS":
            continue
        for st in at.get((b.id, i), set()):
            if st in ("Z", "?"):
                bad = el
    if bad is not None:
        r.viol(k, wf.name, wf.loc(bad), "ares_dns_write_rr_caa can finish without failing while the CAA value has length 0; ares_dns_parse_rr_caa rejects a record whose value is empty: the message is "
               "written successfully and does not parse back (ARES_EBADRESP)")
    else:
        r.ok(k, wf.loc(wf.ln))


def r_suffix_exact(prog, R, rid):
    import evalx
    r = R.rule(rid, "the escape test in front of a compression match is exact: the '.' before the matched suffix counts as a separator iff it is preceded by an even number of "
               "backslashes, wherever in the name it stands (also at its very beginning)", floor=1,
               analysis="exact evaluation (evalx.run_cfg over a modelled string) of the fragment between the separator test and the acceptance of a match, for prefixes of 0..4 backslashes with and without characters in front")
    f = prog.func("ares_nameoffset_find")
    acc = [(b, i, el) for b, i, el in f.elements() if el["k"] == "asg" and is_var(strip(el["e"]["l"])) and strip(el["e"]["l"])["n"].startswith("longest") and not is_null(el["e"].get("r"))]
    if not r.require(len(acc) == 1, "ares_nameoffset_find: acceptance of a match not found"):
        return
    ab, ai, ael = acc[0]
    # the separator test: name[<prefix> - 1] compared with '.'
    start, namev, prefv = None, None, None
    for b in f.blocks.values():
        br = f.branch(b)
        if not br:
            continue
        for pol, tgt in ((True, br[1]), (False, br[2])):
            for c, p_ in atoms(br[0], pol):
                op, l, rr = norm_cmp(c, p_)
                ls = strip(l)
                if op == "==" and rr is not None and const_val(rr) == 46 and ls is not None and ls.get("k") == "idx" and is_var(strip(ls["b"])):
                    vs_ = [v["n"] for v in vars_in(ls["i"])]
                    if len(vs_) == 1:
                        start, namev, prefv = tgt, strip(ls["b"])["n"], vs_[0]
    if not r.require(start is not None, "ares_nameoffset_find: separator test name[prefix - 1] == '.' not found"):
        return
    locs = {v["n"] for b, i, el in f.elements() if el["k"] == "decl" for v in el["vars"] if "*" not in (v.get("ty") or "")}
    bad = None
    n = 0
    try:
        for lead in (b"", b"a", b"ab"):
            for k in range(0, 5):
                name = lead + b"\\" * k + b".example.com"
                prefix_len = len(lead) + k + 1
                env = {namev: name, prefv: prefix_len}
                for v in locs:
                    env.setdefault(v, 0)
                env[prefv] = prefix_len
                res = evalx.run_cfg(f, env, start=start, max_steps=200, stop_at={(ab.id, ai)})
                accepted = res[0] == "stop"
                n += 1
                if accepted and k % 2 == 1 and bad is None:      # refusing a genuine boundary only costs compression, it is not reported
                    bad = (name, k, accepted)
    except evalx.Unknown as e:
        r.broke("ares_nameoffset_find: escape test not interpretable: %s" % e)
        return
    r.info["strings_evaluated"] = n
    kk = "escaped dot recognised at every position"
    if bad:
        name, k, accepted = bad
        r.viol(kk, f.name, f.loc(ael), "for the name %r (the dot in front of 'example.com' is preceded by %d backslash(es)) the match is %s: %s" % (
            name.decode(), k, "accepted" if accepted else "refused",
            "the dot is escaped and belongs to the label, the name is cut inside a label and the write fails (or writes another name)" if accepted else "a genuine label boundary is not used for compression"))
    else:
        r.ok(kk, f.loc(ael), "%d strings" % n)
