"""Core of the /verif static-analysis framework: fact extraction driver,
program model, expression-tree helpers, CFG utilities and generic dataflow.

Nothing in here knows a property; rules/*.py are written against this API.
"""
import json
import os
import subprocess
import sys
import time
import re
from concurrent.futures import ThreadPoolExecutor

VERIF = os.path.dirname(os.path.dirname(os.path.dirname(os.path.abspath(__file__))))
CACHE = os.path.join(VERIF, ".cache")
CXFACTS = os.path.join(CACHE, "bin", "cxfacts")
CFGDIR = os.path.join(CACHE, "cfg")


class AnalysisBroken(Exception):
    """An anchor vanished / extraction failed / a floor was not met: exit 2."""


# --------------------------------------------------------------------------
# extraction
# --------------------------------------------------------------------------

def unit_list(root):
    """Units of the library: CSOURCES of src/lib/Makefile.inc (the build's own
    list) restricted to files that exist; also reports .c files on disk that the
    list does not mention."""
    inc = os.path.join(root, "src/lib/Makefile.inc")
    if not os.path.exists(inc):
        raise AnalysisBroken("missing %s" % inc)
    txt = open(inc).read().replace("\\\n", " ")
    m = re.search(r"CSOURCES\s*=\s*(.*)", txt)
    if not m:
        raise AnalysisBroken("CSOURCES not found in Makefile.inc")
    listed = m.group(1).split()
    units, missing = [], []
    for rel in listed:
        p = os.path.join(root, "src/lib", rel)
        (units if os.path.exists(p) else missing).append(rel)
    if missing:
        raise AnalysisBroken("units listed in Makefile.inc but missing: %s" % missing)
    ondisk = []
    for d, _, fs in os.walk(os.path.join(root, "src/lib")):
        for f in fs:
            if f.endswith(".c"):
                ondisk.append(os.path.relpath(os.path.join(d, f), os.path.join(root, "src/lib")))
    unlisted = sorted(set(ondisk) - set(listed))
    return units, unlisted


def compile_flags(root, extra=()):
    return ["-DCARES_BUILDING_LIBRARY", "-DHAVE_CONFIG_H=1", "-D_GNU_SOURCE",
            "-D_POSIX_C_SOURCE=200809L", "-D_XOPEN_SOURCE=700",
            "-I" + CFGDIR, "-I" + root, "-I" + os.path.join(root, "include"),
            "-I" + os.path.join(root, "src/lib"), "-I" + os.path.join(root, "src/lib/include"),
            "-std=gnu90", "-UNDEBUG", "-Wno-everything"] + list(extra)


def ensure_setup():
    if not os.path.exists(CXFACTS) or not os.path.exists(os.path.join(CFGDIR, "ares_config.h")):
        r = subprocess.run([os.path.join(VERIF, "setup.sh")], stdout=subprocess.PIPE, stderr=subprocess.STDOUT)
        if r.returncode != 0 or not os.path.exists(CXFACTS):
            raise AnalysisBroken("setup.sh failed: %s" % r.stdout.decode()[-2000:])


def extract(root="/repo", extra_flags=(), jobs=16):
    ensure_setup()
    units, unlisted = unit_list(root)
    flags = compile_flags(root, extra_flags)

    def one(rel):
        src = os.path.join(root, "src/lib", rel)
        r = subprocess.run([CXFACTS, "--root=" + root, src, "--"] + flags,
                           stdout=subprocess.PIPE, stderr=subprocess.PIPE)
        if r.returncode != 0:
            raise AnalysisBroken("extraction failed for %s: %s" % (rel, r.stderr.decode()[-1500:]))
        try:
            return json.loads(r.stdout)
        except Exception as e:  # noqa
            raise AnalysisBroken("bad JSON for %s: %s" % (rel, e))

    with ThreadPoolExecutor(max_workers=jobs) as ex:
        tus = list(ex.map(one, units))
    return tus, units, unlisted


# --------------------------------------------------------------------------
# expression helpers
# --------------------------------------------------------------------------

def strip(e):
    """strip explicit casts"""
    while e is not None and e.get("k") == "cast":
        e = e["e"]
    return e


def children(e):
    k = e.get("k")
    if k in ("mem",):
        return [e["b"]]
    if k in ("un", "cast", "complit"):
        return [e["e"]] if e.get("e") else []
    if k in ("bin",):
        return [e["l"], e["r"]]
    if k == "asg":
        return [e["l"]] + ([e["r"]] if e.get("r") else [])
    if k == "cond":
        return [e["c"], e["t"], e["f"]]
    if k == "idx":
        return [e["b"], e["i"]]
    if k == "call":
        out = []
        if e.get("fnx"):
            out.append(e["fnx"])
        out.extend(a for a in e.get("args", []) if a)
        return out
    if k == "sizeof":
        return []  # unevaluated
    if k == "init":
        return [it["e"] for it in e["items"] if it.get("e")]
    if k == "other":
        return [c for c in e.get("ch", []) if c]
    return []


def walk(e):
    """pre-order over evaluated sub-expressions (sizeof operands excluded)."""
    if e is None:
        return
    stack = [e]
    while stack:
        n = stack.pop()
        if n is None:
            continue
        yield n
        stack.extend(reversed(children(n)))


def render(e):
    """canonical text of an expression tree (no positions, no types)."""
    if e is None:
        return "<none>"
    k = e.get("k")
    if "mac" in e and k not in ("call",):
        if not (k == "cast" and e["mac"] == ["NULL"]):
            return e["mac"][-1] if e["mac"][-1] != "NULL" else "NULL"
        return "NULL"
    if k == "var" or k == "fn":
        return e["n"]
    if k == "enum":
        return e["n"]
    if k == "int":
        return str(e.get("v", e.get("vs", "?")))
    if k == "float":
        return "<float>"
    if k == "str":
        return json.dumps(e.get("s", ""))
    if k == "mem":
        return render(e["b"]) + ("->" if e["arrow"] else ".") + e["f"]
    if k == "un":
        return e["op"] + render(e["e"]) if e["op"] not in ("*", "&") else e["op"] + "(" + render(e["e"]) + ")" if e["e"].get("k") in ("bin", "cond") else e["op"] + render(e["e"])
    if k == "bin":
        return "(" + render(e["l"]) + " " + e["op"] + " " + render(e["r"]) + ")"
    if k == "asg":
        if e["op"] in ("++", "--"):
            return (e["op"] + render(e["l"])) if e.get("prefix") else (render(e["l"]) + e["op"])
        return "(" + render(e["l"]) + " " + e["op"] + " " + render(e["r"]) + ")"
    if k == "cond":
        return "(" + render(e["c"]) + " ? " + render(e["t"]) + " : " + render(e["f"]) + ")"
    if k == "cast":
        return "(" + e.get("tow", e["to"]) + ")" + render(e["e"])
    if k == "sizeof":
        return "sizeof(" + (render(e["of"]) if e.get("of") else e.get("oft", "?")) + ")"
    if k == "idx":
        return render(e["b"]) + "[" + render(e["i"]) + "]"
    if k == "call":
        name = e.get("callee") or ("(*" + (render(e["fnx"]) if e.get("fnx") else "ind") + ")")
        if e.get("ref"):
            return name + "#%s" % e.get("id")
        return name + "(" + ", ".join(render(a) for a in e.get("args", [])) + ")"
    if k == "init":
        return "{" + ", ".join(render(it.get("e")) for it in e["items"]) + "}"
    if k == "complit":
        return render(e["e"])
    return "<%s>" % e.get("cls", k)


def path(e):
    """access path: var, var->f, var->f.g, *var, var[] ; None if not a path."""
    e = strip(e)
    if e is None:
        return None
    k = e.get("k")
    if k == "var":
        return e["n"]
    if k == "mem":
        b = path(e["b"])
        return None if b is None else b + ("->" if e["arrow"] else ".") + e["f"]
    if k == "un" and e["op"] == "*":
        b = path(e["e"])
        return None if b is None else "*" + b
    if k == "un" and e["op"] == "&":
        b = path(e["e"])
        return None if b is None else "&" + b
    if k == "idx":
        b = path(e["b"])
        return None if b is None else b + "[]"
    return None


def root_var(e):
    """the variable an lvalue/access path is rooted at (node) or None."""
    e = strip(e)
    while e is not None:
        k = e.get("k")
        if k == "var":
            return e
        if k == "mem":
            e = strip(e["b"])
        elif k == "un" and e["op"] in ("*", "&"):
            e = strip(e["e"])
        elif k == "idx":
            e = strip(e["b"])
        else:
            return None
    return None


def is_null(e):
    e2 = strip(e)
    return e2 is not None and e2.get("k") == "int" and e2.get("v") == 0 and not e2.get("chr")


def const_val(e):
    if e is None:
        return None
    return e.get("v")


def is_call_to(e, *names):
    e = strip(e)
    return e is not None and e.get("k") == "call" and e.get("callee") in names


def is_var(e, name=None):
    e = strip(e)
    return e is not None and e.get("k") == "var" and (name is None or e["n"] == name)


def mem_accesses(e):
    """all member-access nodes in e"""
    return [n for n in walk(e) if n.get("k") == "mem"]


def calls_in(e):
    return [n for n in walk(e) if n.get("k") == "call"]


def vars_in(e):
    return [n for n in walk(e) if n.get("k") == "var"]


def atoms(cond, pol=True):
    """split a branch condition into atomic (expr, polarity) facts that hold when
    `cond` evaluates to `pol`.  CFG conditions are already atomic w.r.t. &&/||
    (clang splits them); this only removes '!' and '== 0' style wrappers."""
    c = strip(cond)
    if c is None:
        return []
    if c.get("k") == "un" and c["op"] == "!":
        return atoms(c["e"], not pol)
    if c.get("k") == "bin" and c["op"] in ("&&",) and pol:
        return atoms(c["l"], True) + atoms(c["r"], True)
    if c.get("k") == "bin" and c["op"] in ("||",) and not pol:
        return atoms(c["l"], False) + atoms(c["r"], False)
    return [(c, pol)]


NEG = {"==": "!=", "!=": "==", "<": ">=", ">=": "<", ">": "<=", "<=": ">"}
SWAP = {"==": "==", "!=": "!=", "<": ">", ">": "<", "<=": ">=", ">=": "<="}


def _constlike(e):
    return e is not None and (e.get("k") in ("int", "enum") or (e.get("k") == "sizeof"))


def norm_cmp(c, pol):
    """normalise an atomic condition to (op, lhs_tree, rhs_tree) that HOLDS, or
    ('truth'|'false', tree, None) for plain truth tests."""
    c = strip(c)
    if c.get("k") == "bin" and c["op"] in NEG:
        op = c["op"] if pol else NEG[c["op"]]
        l, r = c["l"], c["r"]
        ls, rs = strip(l), strip(r)
        # spelling does not matter: a constant on the left is moved to the right, and a comparison with the boolean enumerators is the
        # plain truth test it stands for (`f() == ARES_FALSE` is `!f()`)
        if _constlike(ls) and not _constlike(rs):
            l, r, op = r, l, SWAP[op]
            ls, rs = rs, ls
        if rs is not None and rs.get("k") == "enum" and rs.get("n") in ("ARES_FALSE", "ARES_TRUE") and op in ("==", "!="):
            truth = (rs["n"] == "ARES_TRUE") == (op == "==")
            return ("truth" if truth else "false", l, None)
        return (op, l, r)
    return ("truth" if pol else "false", c, None)


# --------------------------------------------------------------------------
# program model
# --------------------------------------------------------------------------

class Block:
    __slots__ = ("id", "succs", "els", "term", "label", "preds", "noreturn")

    def __init__(self, d):
        self.id = d["id"]
        self.succs = d["succs"]
        self.els = d["els"]
        self.term = d.get("term")
        self.label = d.get("label")
        self.noreturn = d.get("noreturn", False)
        self.preds = []


class Func:
    def __init__(self, d, tu, root):
        self.d = d
        self.name = d["name"]
        self.static = d["static"]
        self.file = os.path.relpath(d["file"], root) if d["file"].startswith("/") else d["file"]
        self.ln = d["ln"]
        self.endln = d.get("endln", d["ln"])
        self.tu = tu
        self.ret = d["ret"]
        self.retw = d.get("retw", d["ret"])
        self.params = d["params"]
        self.vars = {v["id"]: v for v in d.get("vars", [])}
        self.key = (self.file + "::" + self.name) if self.static else self.name
        self.blocks = {}
        self.entry = d.get("entry")
        self.exit = d.get("exit")
        for b in d.get("blocks", []):
            self.blocks[b["id"]] = Block(b)
        # a block ending in a call to a noreturn function (__assert_fail, abort) does not continue
        for b in self.blocks.values():
            if b.noreturn:
                b.succs = []
        # prune edges of constant conditions (`while (1)`, `do {} while (0)`)
        for b in self.blocks.values():
            t = b.term
            if t and t.get("cond") is not None and t["cls"] != "SwitchStmt" and len(b.succs) == 2:
                v = t["cond"].get("v")
                if v is not None and t["cond"].get("k") in ("int", "enum", "cast"):
                    if v:
                        b.succs = [b.succs[0], None]
                    else:
                        b.succs = [None, b.succs[1]]
        for b in self.blocks.values():
            for s in b.succs:
                if s is not None and s in self.blocks:
                    self.blocks[s].preds.append(b.id)
        self._calls = None
        self._dom = None
        self._pdom = None
        self._rpo = None

    def __repr__(self):
        return "<Func %s>" % self.key

    # ---- elements ----
    def elements(self):
        """yield (block, index, element) in block-id order (not execution order)."""
        for b in self.blocks.values():
            for i, el in enumerate(b.els):
                yield b, i, el

    def calls(self):
        """list of (block, idx, callnode) for every call element."""
        if self._calls is None:
            out = []
            for b, i, el in self.elements():
                if el["k"] == "call":
                    out.append((b, i, el["e"]))
            self._calls = out
        return self._calls

    def call_by_id(self, cid):
        for b, i, c in self.calls():
            if c.get("id") == cid:
                return b, i, c
        return None

    def calls_to(self, *names):
        return [(b, i, c) for b, i, c in self.calls() if c.get("callee") in names]

    def returns(self):
        return [(b, i, el) for b, i, el in self.elements() if el["k"] == "ret"]

    def exits(self):
        """program points at which the function's final state can be observed: for value-returning
        functions the explicit return elements; for void functions the (empty) exit block itself, which
        every `return;` and every fall-off-the-end edge flows into: (exit_block, 0, None)"""
        if self.ret != "void":
            return list(self.returns())
        return [(self.blocks[self.exit], 0, None)]

    def param_index(self, name):
        for i, p in enumerate(self.params):
            if p["n"] == name:
                return i
        return None

    def loc(self, el_or_ln):
        ln = el_or_ln if isinstance(el_or_ln, int) else el_or_ln.get("ln")
        return "%s:%s" % (self.file, ln)

    # ---- cfg ----
    def rpo(self):
        if self._rpo is None:
            seen, order = set(), []
            stack = [(self.entry, iter(self.succ(self.entry)))]
            seen.add(self.entry)
            while stack:
                n, it = stack[-1]
                adv = False
                for s in it:
                    if s not in seen:
                        seen.add(s)
                        stack.append((s, iter(self.succ(s))))
                        adv = True
                        break
                if not adv:
                    order.append(n)
                    stack.pop()
            order.reverse()
            self._rpo = order
        return self._rpo

    def succ(self, bid):
        return [s for s in self.blocks[bid].succs if s is not None]

    def reachable_blocks(self):
        return set(self.rpo())

    def dominators(self):
        """immediate-dominator-free: dom sets per block (small CFGs)."""
        if self._dom is None:
            order = self.rpo()
            allb = set(order)
            dom = {b: set(allb) for b in order}
            dom[self.entry] = {self.entry}
            changed = True
            while changed:
                changed = False
                for b in order:
                    if b == self.entry:
                        continue
                    ps = [p for p in self.blocks[b].preds if p in allb]
                    new = set.intersection(*[dom[p] for p in ps]) if ps else set()
                    new = new | {b}
                    if new != dom[b]:
                        dom[b] = new
                        changed = True
            self._dom = dom
        return self._dom

    def back_edges(self):
        dom = self.dominators()
        out = []
        for b in self.rpo():
            for s in self.succ(b):
                if s in dom.get(b, ()):
                    out.append((b, s))
        return out

    def loop_blocks(self):
        """blocks that are inside some natural loop -> set"""
        inloop = set()
        for (t, h) in self.back_edges():
            body = {h, t}
            st = [t]
            while st:
                n = st.pop()
                if n == h:
                    continue
                for p in self.blocks[n].preds:
                    if p not in body:
                        body.add(p)
                        st.append(p)
            inloop |= body
        return inloop

    def natural_loops(self):
        loops = {}
        for (t, h) in self.back_edges():
            body = loops.setdefault(h, {h})
            body.add(t)
            st = [t]
            while st:
                n = st.pop()
                if n == h:
                    continue
                for p in self.blocks[n].preds:
                    if p not in body:
                        body.add(p)
                        st.append(p)
        return loops

    def branch(self, b):
        """(cond_tree, true_succ, false_succ) for two-way conditional blocks, else None."""
        blk = self.blocks[b] if not isinstance(b, Block) else b
        t = blk.term
        if not t or "cond" not in t or t["cls"] == "SwitchStmt":
            return None
        if len(blk.succs) != 2:
            return None
        return t["cond"], blk.succs[0], blk.succs[1]

    def switch_cases(self, b):
        """for a switch block: list of (succ_block, [case value trees] | 'default' | 'implicit-default')"""
        blk = self.blocks[b] if not isinstance(b, Block) else b
        t = blk.term
        if not t or t["cls"] != "SwitchStmt":
            return None
        out = []
        for s in blk.succs:
            if s is None:
                continue
            lab = self.blocks[s].label
            if lab and lab["k"] == "case":
                out.append((s, [lab["lo"]] if "hi" not in lab else [lab["lo"], lab["hi"]]))
            elif lab and lab["k"] == "default":
                out.append((s, "default"))
            else:
                out.append((s, "implicit-default"))
        return out


class Program:
    def __init__(self, tus, root="/repo", units=None, unlisted=None):
        self.root = root
        self.units = units or []
        self.unlisted = unlisted or []
        self.funcs = {}
        self.by_name = {}
        self.records = {}
        self.enums = {}
        self.enumconst = {}
        self.typedefs = {}
        self.globals = {}
        self.macros = {}
        self.protos = {}
        seen = set()
        for tu in tus:
            tuname = os.path.relpath(tu["main"], root)
            for fd in tu["funcs"]:
                ident = (fd["file"], fd["ln"], fd["name"])
                f = Func(fd, tuname, root)
                if ident in seen:
                    # header-defined static function seen in another TU
                    ex = self.funcs.get(f.key)
                    if ex is not None:
                        ex.tus.add(tuname)
                    continue
                seen.add(ident)
                f.tus = {tuname}
                if f.key in self.funcs:
                    raise AnalysisBroken("duplicate function key %s" % f.key)
                self.funcs[f.key] = f
                self.by_name.setdefault(f.name, []).append(f)
            for r in tu["records"]:
                key = r["name"]
                relf = os.path.relpath(r["file"], root)
                r["relfile"] = relf
                if key in self.records and self.records[key]["relfile"] != relf:
                    # same tag in different files (two struct host_query): keep both, file-qualified
                    self.records.setdefault(key + "@" + relf, r)
                    old = self.records[key]
                    self.records.setdefault(key + "@" + old["relfile"], old)
                else:
                    self.records[key] = r
            for e in tu["enums"]:
                self.enums[e["name"] or ("anon@%s:%s" % (e["file"], e["ln"]))] = e
                for it in e["items"]:
                    self.enumconst[it["n"]] = (e["name"], it["v"])
            for t in tu["typedefs"]:
                self.typedefs[t["name"]] = t["ty"]
            for g in tu["globals"]:
                k = g["name"]
                if g.get("static"):
                    k = os.path.relpath(g["file"], root) + "::" + g["name"]
                if k not in self.globals or (g.get("def") and "init" in g):
                    self.globals[k] = g
            for m in tu["macros"]:
                self.macros.setdefault(m["n"], m)
            for p in tu["protos"]:
                self.protos.setdefault(p["name"], []).append(p)
        self._callers = None
        self._addr_taken = None

    # ---- lookup ----
    def func(self, name, file=None, required=True):
        c = self.by_name.get(name, [])
        if file is not None:
            c = [f for f in c if f.file == file or f.file.endswith(file)]
        if len(c) == 1:
            return c[0]
        if not c:
            if required:
                raise AnalysisBroken("anchor function %s%s not found" % (name, " in " + file if file else ""))
            return None
        raise AnalysisBroken("anchor function %s ambiguous: %s" % (name, [f.key for f in c]))

    def funcs_in(self, *files):
        return [f for f in self.funcs.values() if any(f.file == x or f.file.endswith("/" + x) or f.file.endswith(x) for x in files)]

    def resolve(self, caller, callnode):
        """Func for a direct call, or None (external / libc / indirect)."""
        name = callnode.get("callee")
        if not name:
            return None
        c = self.by_name.get(name)
        if not c:
            return None
        if len(c) == 1:
            return c[0]
        for f in c:
            if caller.tu in f.tus:
                return f
        ext = [f for f in c if not f.static]
        return ext[0] if len(ext) == 1 else None

    def callers(self):
        """key -> list of (caller Func, block, idx, callnode)"""
        if self._callers is None:
            m = {}
            for f in self.funcs.values():
                for b, i, c in f.calls():
                    t = self.resolve(f, c)
                    if t is not None:
                        m.setdefault(t.key, []).append((f, b, i, c))
                    elif c.get("callee"):
                        m.setdefault("ext:" + c["callee"], []).append((f, b, i, c))
            self._callers = m
        return self._callers

    def callers_of(self, name_or_func):
        key = name_or_func.key if isinstance(name_or_func, Func) else None
        if key is None:
            c = self.by_name.get(name_or_func)
            if c:
                out = []
                for f in c:
                    out.extend(self.callers().get(f.key, []))
                return out
            return self.callers().get("ext:" + name_or_func, [])
        return self.callers().get(key, [])

    def public_functions(self):
        """functions with a body in src/lib that are declared in include/*.h"""
        out = []
        for name, ps in self.protos.items():
            if any(os.path.relpath(p["file"], self.root).startswith("include/") for p in ps):
                fs = [f for f in self.by_name.get(name, []) if not f.static]
                out.extend(fs)
        return sorted(set(out), key=lambda f: f.key)

    def record(self, name, file=None):
        if file:
            r = self.records.get(name + "@" + file)
            if r:
                return r
        r = self.records.get(name)
        if r is None:
            raise AnalysisBroken("anchor record %s not found" % name)
        return r

    def enum(self, name):
        e = self.enums.get(name)
        if e is None:
            raise AnalysisBroken("anchor enum %s not found" % name)
        return e

    def macro_int(self, name):
        m = self.macros.get(name)
        if not m:
            return None
        body = m["body"].replace(" ", "")
        try:
            if re.fullmatch(r"[()0-9xXa-fA-FuUlL<|+\-*&~]+", body):
                body2 = re.sub(r"(?<=[0-9a-fA-F])[uUlL]+", "", body)
                return int(eval(body2, {"__builtins__": {}}))
        except Exception:
            return None
        return None


def load_program(root="/repo", extra_flags=()):
    t0 = time.time()
    tus, units, unlisted = extract(root, extra_flags)
    p = Program(tus, root, units, unlisted)
    p.extract_s = time.time() - t0
    return p


# --------------------------------------------------------------------------
# generic dataflow
# --------------------------------------------------------------------------

def written_vars(el):
    """names of local variables (whole) written by an element, plus paths written."""
    out = set()
    k = el["k"]
    if k == "decl":
        for v in el["vars"]:
            out.add(v["n"])
    elif k == "asg":
        p = path(el["e"]["l"])
        if p:
            out.add(p)
    return out


def addr_taken_args(callnode):
    """paths whose address is passed to a call (may be written by callee)."""
    out = set()
    cp = callnode.get("constp") or []
    for k, a in enumerate(callnode.get("args", [])):
        if k < len(cp) and cp[k]:
            continue
        a2 = strip(a)
        if a2 and a2.get("k") == "un" and a2["op"] == "&":
            p = path(a2["e"])
            if p:
                out.add(p)
    return out


def fact_key(c):
    return render(c)


def fact_paths(c):
    """access paths a condition depends on (for kill computation)."""
    ps = set()
    for n in walk(c):
        if n.get("k") in ("var", "mem", "idx") or (n.get("k") == "un" and n["op"] == "*"):
            p = path(n)
            if p:
                ps.add(p)
    return ps


def _kills(written, deps):
    """does writing path `written` invalidate a fact depending on paths `deps`?"""
    for d in deps:
        if d == written or d.startswith(written + "->") or d.startswith(written + ".") or d.startswith(written + "[") \
                or d == "*" + written or d.startswith("*" + written):
            return True
        # writing *p / p->f kills facts on exactly that path (handled above) only
    return False


class MustFacts:
    """Forward must-analysis: at every element, the set of atomic branch facts
    (render(cond), polarity) that hold on EVERY path from entry.  Facts are
    killed when a path they depend on is assigned, has its address passed to a
    call, or (for facts mentioning memory through pointers: '->' or '*') when
    `kill_mem_on_call(callnode)` says the call may write it (default: facts on
    pure locals survive calls; facts on fields survive calls unless the policy
    says otherwise).

    Also records facts of the form ('call', callee, id) : "call executed" so
    must-pass-through queries are the same mechanism.
    """

    def __init__(self, func, kill_mem_on_call=None, track_calls=True):
        self.f = func
        self.kill_mem = kill_mem_on_call
        self.track_calls = track_calls
        self.deps = {}
        self.trees = {}
        self.at = {}       # (block, idx) -> frozenset facts before element idx; idx==len -> at terminator
        self.block_in = {}
        self._run()

    def _fact(self, c, pol):
        k = (fact_key(c), pol)
        if k not in self.deps:
            self.deps[k] = fact_paths(c)
            self.trees[k] = c
        return k

    def _transfer_el(self, facts, el):
        k = el["k"]
        written = set()
        if k == "decl":
            for v in el["vars"]:
                written.add(v["n"])
        elif k == "asg":
            p = path(el["e"]["l"])
            if p:
                written.add(p)
            else:
                rv = root_var(el["e"]["l"])
                if rv:
                    written.add(rv["n"])
        elif k == "call":
            written |= addr_taken_args(el["e"])
        if written:
            facts = frozenset(fk for fk in facts if not (isinstance(fk[0], str) and fk in self.deps and any(_kills(w, self.deps[fk]) for w in written)))
        if k == "call":
            c = el["e"]
            if self.kill_mem is not None:
                facts = frozenset(fk for fk in facts if not (fk in self.deps and self.kill_mem(c, self.deps[fk])))
            if self.track_calls:
                facts = facts | {("call", c.get("callee") or "<indirect>", c.get("id"))}
        return facts

    def _run(self):
        f = self.f
        order = f.rpo()
        IN = {b: None for b in order}
        IN[f.entry] = frozenset()
        OUT_EDGE = {}
        changed = True
        it = 0
        while changed:
            changed = False
            it += 1
            for b in order:
                blk = f.blocks[b]
                if b != f.entry:
                    ins = [OUT_EDGE[(p, b)] for p in blk.preds if (p, b) in OUT_EDGE]
                    if not ins:
                        continue
                    new_in = frozenset.intersection(*ins)
                    if IN[b] is not None and new_in == IN[b] and it > 1:
                        pass
                    IN[b] = new_in
                facts = IN[b]
                for i, el in enumerate(blk.els):
                    self.at[(b, i)] = facts
                    facts = self._transfer_el(facts, el)
                self.at[(b, len(blk.els))] = facts
                br = f.branch(blk)
                if br:
                    cond, ts, fs = br
                    for s, pol in ((ts, True), (fs, False)):
                        if s is None:
                            continue
                        add = frozenset(self._fact(c, p) for c, p in atoms(cond, pol))
                        if ts == fs:
                            add = frozenset()
                        new = facts | add
                        if OUT_EDGE.get((b, s)) != new:
                            OUT_EDGE[(b, s)] = new
                            changed = True
                elif blk.term and blk.term["cls"] == "SwitchStmt":
                    sw = blk.term["switch"]
                    cases = f.switch_cases(blk)
                    multi = {}
                    for s, vals in cases:
                        multi[s] = multi.get(s, 0) + 1
                    for s, vals in cases:
                        add = frozenset()
                        if isinstance(vals, list) and len(vals) == 1 and multi[s] == 1:
                            fake = {"k": "bin", "op": "==", "l": sw, "r": vals[0]}
                            add = frozenset([self._fact(fake, True)])
                        new = facts | add
                        if OUT_EDGE.get((b, s)) != new:
                            OUT_EDGE[(b, s)] = new
                            changed = True
                else:
                    for s in blk.succs:
                        if s is None:
                            continue
                        if OUT_EDGE.get((b, s)) != facts:
                            OUT_EDGE[(b, s)] = facts
                            changed = True
            if it > 200:
                raise AnalysisBroken("MustFacts did not converge in %s" % f.key)
        self.block_in = IN
        self.edge = OUT_EDGE

    # ---- queries ----
    def facts_at(self, b, i):
        bid = b.id if isinstance(b, Block) else b
        return self.at.get((bid, i), frozenset())

    def cond_facts_at(self, b, i):
        """[(tree, polarity)] for branch facts holding before element i of block b"""
        return [(self.trees[fk], fk[1]) for fk in self.facts_at(b, i) if fk in self.trees]

    def calls_before(self, b, i):
        return [fk for fk in self.facts_at(b, i) if fk[0] == "call"]

    def passed_call(self, b, i, *names):
        return any(fk[0] == "call" and fk[1] in names for fk in self.facts_at(b, i))


def forward_states(func, init, transfer, refine=None, cap=256, switch_refine=None):
    """Disjunctive forward abstract interpretation.
    init: hashable state. transfer(state, block, idx, el) -> iterable of states.
    refine(state, cond_tree, polarity, block) -> state or None (infeasible).
    switch_refine(state, switch_tree, case_vals|'default'|'implicit-default', all_case_vals) -> state or None
    Returns dict: (block, idx) -> set(states before element idx); idx == len(els) is the terminator point.
    """
    f = func
    at = {}
    work = [(f.entry, init)]
    seen_in = {}
    steps = 0
    while work:
        b, st = work.pop()
        s = seen_in.setdefault(b, set())
        if st in s:
            continue
        s.add(st)
        if len(s) > cap:
            raise AnalysisBroken("state cap %d exceeded in %s block %s" % (cap, f.key, b))
        steps += 1
        if steps > 400000:
            raise AnalysisBroken("state explosion in %s" % f.key)
        blk = f.blocks[b]
        cur = [st]
        for i, el in enumerate(blk.els):
            nxt = []
            for c in cur:
                at.setdefault((b, i), set()).add(c)
                for n in transfer(c, blk, i, el):
                    if n not in nxt:
                        nxt.append(n)
            cur = nxt
            if not cur:
                break
        for c in cur:
            at.setdefault((b, len(blk.els)), set()).add(c)
        if not cur:
            continue
        br = f.branch(blk)
        if br:
            cond, ts, fs = br
            for c in cur:
                for s2, pol in ((ts, True), (fs, False)):
                    if s2 is None:
                        continue
                    n = refine(c, cond, pol, blk) if refine else c
                    if n is not None:
                        work.append((s2, n))
        elif blk.term and blk.term["cls"] == "SwitchStmt":
            cases = f.switch_cases(blk)
            allv = [v for _, vals in cases if isinstance(vals, list) for v in vals]
            for c in cur:
                for s2, vals in cases:
                    n = switch_refine(c, blk.term["switch"], vals, allv) if switch_refine else c
                    if n is not None:
                        work.append((s2, n))
        else:
            for s2 in blk.succs:
                if s2 is not None:
                    for c in cur:
                        work.append((s2, c))
    return at


def exec_order(func):
    """(block, idx, el) for all elements of reachable blocks in RPO order."""
    for b in func.rpo():
        blk = func.blocks[b]
        for i, el in enumerate(blk.els):
            yield blk, i, el


def reach_after(func, b, i):
    """set of (block, idx) program points strictly reachable after element (b,i)."""
    out = set()
    blk = func.blocks[b]
    for j in range(i + 1, len(blk.els)):
        out.add((b, j))
    seen = set()
    st = list(func.succ(b))
    while st:
        n = st.pop()
        if n in seen:
            continue
        seen.add(n)
        for j in range(len(func.blocks[n].els)):
            out.add((n, j))
        st.extend(func.succ(n))
    return out


def blocks_reaching(func, targets, avoid=()):
    """set of blocks from which some target block is reachable without entering `avoid` blocks."""
    targets = set(targets)
    avoid = set(avoid)
    seen = set(t for t in targets if t not in avoid)
    st = list(seen)
    while st:
        n = st.pop()
        for p in func.blocks[n].preds:
            if p not in seen and p not in avoid:
                seen.add(p)
                st.append(p)
    return seen
