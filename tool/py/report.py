"""Rule/instance bookkeeping, known-findings matching, evidence and exit codes."""
import json
import os
import time

from core import VERIF, AnalysisBroken

KNOWN = os.path.join(VERIF, "known_findings.json")
EVID = os.path.join(VERIF, "evidence")


class Rule:
    def __init__(self, rid, desc, floor=0, analysis=""):
        self.id = rid
        self.desc = desc
        self.floor = floor
        self.analysis = analysis
        self.instances = []     # every obligation evaluated: dict(key, loc, ok, note)
        self.violations = []
        self.broken = []
        self.nontrivial = set()
        self.info = {}

    def ok(self, key, loc="", note="", nontrivial=True):
        self.instances.append({"key": key, "loc": loc, "ok": True, "note": note})
        if nontrivial:
            self.nontrivial.add(key)

    def viol(self, key, func, loc, msg, trail=None, **extra):
        """func: function name (stable), key: stable instance key (no line numbers)."""
        self.instances.append({"key": key, "loc": loc, "ok": False, "note": msg})
        self.nontrivial.add(key)
        v = {"rule": self.id, "instance": key, "function": func, "loc": loc, "msg": msg}
        if trail:
            v["trail"] = trail
        v.update(extra)
        self.violations.append(v)

    def broke(self, msg):
        self.broken.append(msg)

    def require(self, cond, msg):
        if not cond:
            self.broke(msg)
        return cond


class Report:
    def __init__(self, pid, tier):
        self.pid = pid
        self.tier = tier
        self.rules = []
        self.assumptions = []
        self.notes = {}
        self.t0 = time.time()

    def rule(self, rid, desc, floor=0, analysis=""):
        r = Rule(rid, desc, floor, analysis)
        self.rules.append(r)
        return r

    def assume(self, s):
        if s not in self.assumptions:
            self.assumptions.append(s)


def load_known():
    if not os.path.exists(KNOWN):
        return []
    return json.load(open(KNOWN))


def finish(report, prog, explanation, undecided, seed=0, only=None):
    """Write evidence, print VIOLATION / KNOWN-FINDING lines, return exit code."""
    pid = report.pid
    known = [k for k in load_known() if k.get("property") == pid and k.get("status") == "known"]
    fixed = [k for k in load_known() if k.get("property") == pid and k.get("status") == "fixed"]
    broken = []
    viols, knowns = [], []
    rules_out = []
    n_inst = 0
    n_nontriv = 0
    samples = []
    for r in report.rules:
        if len(r.instances) < r.floor:
            r.broke("rule %s matched %d instances, floor is %d (anchor drift: a rule that matches "
                    "fewer sites than were confirmed by hand cannot vouch for the property)" % (r.id, len(r.instances), r.floor))
        broken.extend("%s: %s" % (r.id, b) for b in r.broken)
        n_inst += len(r.instances)
        n_nontriv += len(r.nontrivial)
        rv = []
        for v in r.violations:
            if only and not (v["rule"] == only.get("rule") and v["instance"] == only.get("instance")):
                continue
            m = [k for k in known if k.get("rule") == v["rule"] and k.get("function") == v["function"] and k.get("instance") == v["instance"]]
            if m:
                knowns.append((v, m[0]))
            else:
                viols.append(v)
            rv.append(v)
        rules_out.append({
            "rule": r.id, "desc": r.desc, "analysis": r.analysis, "floor": r.floor,
            "instances": len(r.instances), "held": sum(1 for i in r.instances if i["ok"]),
            "violations": len(r.violations), "broken": r.broken,
            "samples": r.instances[:4], "info": r.info,
        })
        for i in r.instances[:2]:
            samples.append({"rule": r.id, "instance": i["key"], "loc": i["loc"], "held": i["ok"], "note": i["note"]})
    os.makedirs(os.path.join(EVID, "violations"), exist_ok=True)
    # stale violation files of this property
    for fn in os.listdir(os.path.join(EVID, "violations")):
        if fn.startswith(pid + "-"):
            os.unlink(os.path.join(EVID, "violations", fn))
    lines = []
    for v, k in knowns:
        lines.append("KNOWN-FINDING: property=%s rule=%s function=%s instance=%s %s (%s)" % (
            pid, v["rule"], v["function"], v["instance"], k.get("what", ""), v["loc"]))
    for n, v in enumerate(viols):
        pth = os.path.join(EVID, "violations", "%s-%d.json" % (pid, n))
        v2 = dict(v)
        v2["property"] = pid
        v2["tier"] = report.tier
        json.dump(v2, open(pth, "w"), indent=1)
        lines.append("VIOLATION property=%s replay=%s" % (pid, pth))
        lines.append("  %s %s in %s at %s: %s" % (v["rule"], v["instance"], v["function"], v["loc"], v["msg"]))
        for t in v.get("trail", [])[:12]:
            lines.append("      via %s" % t)
    for b in broken:
        lines.append("ANALYSIS-BROKEN property=%s %s" % (pid, b))
    wall = time.time() - report.t0
    ev = {
        "property_id": pid,
        "tier": report.tier,
        "seed": seed,
        "level": "other",
        "coverage": {
            "explanation": explanation,
            "not_decided": undecided,
            "evaluations": max(n_inst, 0),
            "distinct_nontrivial": n_nontriv,
            "rule": "one evaluation = one rule instance (a call site, store, path obligation or table row found in /repo's "
                    "current source by the extractor) checked against its rule; distinct = distinct stable instance keys; "
                    "non-trivial = the instance required a path/guard/table argument (not a mere presence test)",
            "samples": samples[:40],
            "obligations": n_inst,
            "discharged": sum(ro["held"] for ro in rules_out),
            "rules": rules_out,
            "units_parsed": len(prog.units) if prog else 0,
            "units_unlisted": prog.unlisted if prog else [],
            "functions_with_cfg": len(prog.funcs) if prog else 0,
            "config": "linux, CARES_THREADS, epoll+poll+select, pipe wake (the configuration the suite builds); -UNDEBUG",
            "extract_s": round(getattr(prog, "extract_s", 0.0), 2) if prog else 0,
            "known_findings_reported": [{"rule": v["rule"], "function": v["function"], "instance": v["instance"]} for v, _ in knowns],
            "fixed_entries_in_known_file": [k.get("rule", "") + ":" + k.get("function", "") for k in fixed],
            "analysis_broken": broken,
            "exhaustive": False,
        },
        "assumptions": report.assumptions,
        "wall_s": round(wall, 2),
        "violations": len(viols),
    }
    if not only:
        json.dump(ev, open(os.path.join(EVID, "%s.json" % pid), "w"), indent=1)
    for ln in lines:
        print(ln)
    summ = "%s tier=%s rules=%d instances=%d held=%d known=%d violations=%d broken=%d wall=%.1fs" % (
        pid, report.tier, len(report.rules), n_inst, ev["coverage"]["discharged"], len(knowns), len(viols), len(broken), wall)
    print(summ)
    if viols:
        return 1
    if broken:
        return 2
    return 0
