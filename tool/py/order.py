"""A-ORD: path-sensitive comparison facts and finite ordering arguments.

Values that are touched only through comparisons admit a finite argument: for two scalars X, Y the
possible orderings are {lt, eq, gt}; every branch fact removes some.  For (sec, usec) pairs the
lexicographic ordering is derived from the two component orderings.  A subtraction `d = X - Y` tested
for sign is accepted as a comparison only when it cannot wrap (signed, >= 64 bit, operands converted
before subtracting); an unsigned difference gives no ordering information (and is reported)."""
from lib import *  # noqa

ALL = frozenset(("lt", "eq", "gt"))
OPSET = {"<": {"lt"}, "<=": {"lt", "eq"}, "==": {"eq"}, "!=": {"lt", "gt"}, ">=": {"eq", "gt"}, ">": {"gt"}}


def nocast(e):
    e = strip(e)
    while e is not None and e.get("k") == "cast":
        e = strip(e["e"])
    return e


def addr_args(c):
    """nodes whose address is passed to a pointer-to-non-const parameter"""
    out = []
    cp = c.get("constp") or []
    for k, a in enumerate(c.get("args", [])):
        if k < len(cp) and cp[k]:
            continue
        a2 = nocast(a)
        if a2 is not None and a2.get("k") == "un" and a2["op"] == "&":
            out.append(nocast(a2["e"]))
    return out


def key(e):
    e = nocast(e)
    if e is None:
        return None
    if e.get("k") == "bin":
        return "(%s %s %s)" % (key(e["l"]), e["op"], key(e["r"]))
    if e.get("k") == "un":
        return "(%s%s)" % (e["op"], key(e["e"]))
    if e.get("k") == "mem":
        return "%s%s%s" % (key(e["b"]), "->" if e.get("arrow") else ".", e["f"])
    return render(e)


def _signed64(ty):
    ty = (ty or "").replace("const ", "")
    return ty in ("long", "long long", "ares_int64_t", "int64_t", "ssize_t", "time_t", "__time_t")


def safe_difference(e):
    """e is a bin '-' node: True when its sign is the ordering of its operands (no unsigned wrap)"""
    e = strip(e)
    while e is not None and e.get("k") == "cast":
        e = strip(e["e"])
    if e is None or e.get("k") != "bin" or e["op"] != "-":
        return False
    return _signed64(e.get("tyw") or e.get("ty")) or _signed64(e.get("ty"))


class PathFacts:
    """disjunctive path facts: state = frozenset of atoms (op, lkey, rkey) / ('diff', d, xkey, ykey)"""

    def __init__(self, func, cap=512):
        self.f = func
        self.unsafe = []          # (ln, rendered) unsigned differences used for ordering
        self.at = forward_states(func, frozenset(), self._transfer, self._refine, cap=cap)

    def _kill(self, st, written):
        if not written:
            return st
        out = set()
        for a in st:
            ks = [x for x in a[1:] if isinstance(x, str)]
            if any(self._mentions(k, w) for k in ks for w in written):
                continue
            out.add(a)
        return frozenset(out)

    @staticmethod
    def _mentions(k, w):
        import re
        return re.search(r"(?<![A-Za-z0-9_])%s(?![A-Za-z0-9_])" % re.escape(w), k) is not None

    def _transfer(self, st, blk, i, el):
        k = el["k"]
        if k == "decl":
            for v in el["vars"]:
                st = self._kill(st, [v["n"]])
                st = self._def(st, v["n"], v.get("init"), el["ln"])
            return [st]
        if k == "asg":
            l = nocast(el["e"]["l"])
            lk = key(l)
            st = self._kill(st, [lk] if lk else [])
            if el["e"]["op"] == "=" and l is not None and l.get("k") == "var":
                st = self._def(st, l["n"], el["e"].get("r"), el["ln"])
            return [st]
        if k == "call":
            w = []
            for a in addr_args(el["e"]):
                kk = key(a)
                if kk:
                    w.append(kk)
            return [self._kill(st, w)]
        return [st]

    def _def(self, st, name, init, ln):
        e = nocast(init)
        if e is not None and e.get("k") == "bin" and e["op"] == "-":
            if safe_difference(init):
                return frozenset(set(st) | {("diff", name, key(e["l"]), key(e["r"]))})
            self.unsafe.append((ln, render(init)))
        return st

    def _atom(self, st, c, pol):
        op, l, r = norm_cmp(c, pol)
        if r is None:
            return ("truth" if op == "truth" else "false", key(l), None)
        ln = nocast(l)
        if ln is not None and ln.get("k") == "bin" and ln["op"] == "-" and const_val(r) == 0:
            if safe_difference(l):
                return (op, key(ln["l"]), key(ln["r"]))
            self.unsafe.append((c.get("ln", 0), render(l)))
            return None
        if ln is not None and ln.get("k") == "var" and const_val(r) == 0:
            for a in st:
                if a[0] == "diff" and a[1] == ln["n"]:
                    return (op, a[2], a[3])
        return (op, key(l), key(r))

    def _refine(self, st, cond, pol, blk):
        new = set(st)
        for c, p in atoms(cond, pol):
            a = self._atom(st, c, p)
            if a is not None:
                new.add(a)
                if a[0] in OPSET and not rel(new, a[1], a[2]):
                    return None      # contradicts the facts already on this path: infeasible
        return frozenset(new)

    def states(self, b, i):
        bid = b.id if isinstance(b, Block) else b
        return self.at.get((bid, i), set())


def rel(st, x, y):
    """possible orderings of x vs y under the atoms of st"""
    cur = set(ALL)
    for a in st:
        if a[0] in OPSET:
            if a[1] == x and a[2] == y:
                cur &= OPSET[a[0]]
            elif a[1] == y and a[2] == x:
                cur &= OPSET[SWAP[a[0]]]
    return cur


def lex(st, A, B):
    """possible lexicographic orderings of pair A=(hi,lo) vs B=(hi,lo)"""
    out = set()
    for s in rel(st, A[0], B[0]):
        if s != "eq":
            out.add(s)
        else:
            out |= rel(st, A[1], B[1])
    return out


def holds(st, c):
    """does state st decide the truth of atomic condition c?  True / False / None"""
    op, l, r = norm_cmp(c, True)
    if r is None:
        return None
    ln = nocast(l)
    x = y = None
    if ln is not None and ln.get("k") == "bin" and ln["op"] == "-" and const_val(r) == 0 and safe_difference(l):
        x, y = key(ln["l"]), key(ln["r"])
    else:
        x, y = key(l), key(r)
    poss = rel(st, x, y)
    if poss <= OPSET[op]:
        return True
    if not (poss & OPSET[op]):
        return False
    return None


def ret_values(st, e):
    """constant values a returned expression can take under st (resolving ?: by the path facts); None = unknown"""
    e = strip(e)
    while e is not None and e.get("k") == "cast":
        e = strip(e["e"])
    if e is None:
        return None
    if e.get("k") == "cond":
        h = holds(st, e["c"])
        if h is True:
            return ret_values(st, e["t"])
        if h is False:
            return ret_values(st, e["f"])
        a, b = ret_values(st, e["t"]), ret_values(st, e["f"])
        if a is None or b is None:
            return None
        return a | b
    v = const_val(e)
    if v is not None:
        return {v}
    return None
