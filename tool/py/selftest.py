"""Two-way self test: every mutant in /verif/mutants/<id>.json and every seeded change in
/verif/seeded/*/patch.diff is applied to a scratch copy of the sources (outside /repo and /verif),
analysed, and must produce a violation of the expected rule; the scratch copy is removed at once."""
import importlib
import io
import json
import os
import shutil
import subprocess
import sys
import tempfile
import contextlib

import core
import report

MUT = os.path.join(core.VERIF, "mutants")
SEEDED = os.path.join(core.VERIF, "seeded")


def make_scratch(repo="/repo"):
    d = tempfile.mkdtemp(prefix="vfscratch-", dir=os.environ.get("VF_SCRATCH_DIR", "/tmp"))
    os.makedirs(os.path.join(d, "src"))
    shutil.copytree(os.path.join(repo, "src/lib"), os.path.join(d, "src/lib"))
    shutil.copytree(os.path.join(repo, "include"), os.path.join(d, "include"))
    return d


def apply_edits(root, edits):
    for e in edits:
        p = os.path.join(root, e["file"])
        s = open(p).read()
        n = s.count(e["old"])
        if n != 1:
            raise core.AnalysisBroken("mutant edit does not apply exactly once (%d) in %s: %r" % (n, e["file"], e["old"][:60]))
        s = s.replace(e["old"], e["new"])
        open(p, "w").write(s)


def analyse(pid, root, tier="quick"):
    """returns (violations, broken, known) for property pid on tree root (no evidence written)."""
    rep = report.Report(pid, tier)
    mod = importlib.import_module(pid)
    prog = core.load_program(root)
    try:
        mod.run(prog, rep, tier)
    except core.AnalysisBroken as e:
        r = rep.rule("R-%s-ENGINE" % pid, "engine")
        r.broke(str(e))
    known = [k for k in report.load_known() if k.get("property") == pid and k.get("status") == "known"]
    viols, broken = [], []
    for r in rep.rules:
        if len(r.instances) < r.floor:
            broken.append("%s floor %d>%d" % (r.id, r.floor, len(r.instances)))
        broken.extend(r.broken)
        for v in r.violations:
            if not any(k.get("rule") == v["rule"] and k.get("function") == v["function"] and k.get("instance") == v["instance"] for k in known):
                viols.append(v)
    return viols, broken


def run_mutants(pids, tier="quick", verbose=True):
    total = det = 0
    missed = []
    for pid in pids:
        p = os.path.join(MUT, pid + ".json")
        if not os.path.exists(p):
            continue
        for m in json.load(open(p)):
            total += 1
            d = make_scratch()
            try:
                apply_edits(d, m["edits"])
                viols, broken = analyse(pid, d, tier)
            except core.AnalysisBroken as e:
                viols, broken = [], ["%s" % e]
            finally:
                shutil.rmtree(d, ignore_errors=True)
            exp = m.get("expect_rule")
            hit = [v for v in viols if exp is None or v["rule"] == exp or v["rule"] in (exp if isinstance(exp, list) else [exp])]
            if m.get("expect_broken"):
                ok = bool(broken)
            else:
                ok = bool(hit)
            det += ok
            if not ok:
                missed.append((pid, m["name"]))
            if verbose:
                print("%-4s %-44s %s %s" % (pid, m["name"], "DETECTED" if ok else "MISSED  ",
                                            (hit[0]["rule"] + " " + hit[0]["instance"]) if hit else ("other:" + ",".join(sorted({v["rule"] for v in viols})) + " broken:" + ";".join(broken)[:200])))
    return total, det, missed


BENIGN = os.path.join(core.VERIF, "benign")


def run_benign(pids, tier="quick", verbose=True):
    """behaviour-preserving rewrites: the checks must stay silent (no violation, no analysis-broken)"""
    total = quiet = 0
    alarms = []
    for pid in pids:
        p = os.path.join(BENIGN, pid + ".json")
        if not os.path.exists(p):
            continue
        for m in json.load(open(p)):
            total += 1
            d = make_scratch()
            try:
                apply_edits(d, m["edits"])
                viols, broken = analyse(pid, d, tier)
            except core.AnalysisBroken as e:
                viols, broken = [], ["%s" % e]
            finally:
                shutil.rmtree(d, ignore_errors=True)
            ok = not viols and not broken
            quiet += ok
            if not ok:
                alarms.append((pid, m["name"]))
            if verbose:
                print("%-4s benign/%-37s %s %s" % (pid, m["name"], "SILENT  " if ok else "ALARM   ",
                                                   "" if ok else ((viols[0]["rule"] + " " + viols[0]["instance"]) if viols else "broken:" + ";".join(broken)[:200])))
    return total, quiet, alarms


def run_seeded(pids=None, tier="quick", verbose=True):
    total = det = 0
    missed = []
    if not os.path.isdir(SEEDED):
        return 0, 0, []
    for name in sorted(os.listdir(SEEDED)):
        sd = os.path.join(SEEDED, name)
        meta_p = os.path.join(sd, "meta.json")
        if not os.path.exists(meta_p):
            continue
        meta = json.load(open(meta_p))
        pid = meta["property"]
        if pids and pid not in pids:
            continue
        total += 1
        d = make_scratch()
        try:
            r = subprocess.run(["patch", "-p1", "-s", "-d", d, "-i", os.path.join(sd, "patch.diff")], stdout=subprocess.PIPE, stderr=subprocess.STDOUT)
            if r.returncode != 0:
                raise core.AnalysisBroken("seeded patch %s does not apply: %s" % (name, r.stdout.decode()[-300:]))
            viols, broken = analyse(pid, d, tier)
        except core.AnalysisBroken as e:
            viols, broken = [], ["%s" % e]
        finally:
            shutil.rmtree(d, ignore_errors=True)
        ok = bool(viols)
        det += ok
        if not ok:
            missed.append((pid, name))
        if verbose:
            print("%-4s seeded/%-36s %s %s" % (pid, name, "DETECTED" if ok else "MISSED  ",
                                               (viols[0]["rule"] + " " + viols[0]["instance"]) if viols else " broken:" + ";".join(broken)[:200]))
    return total, det, missed


def main(args, tier):
    pids = [a for a in args if a.startswith("C")] or sorted(f[:-5] for f in os.listdir(MUT) if f.endswith(".json"))
    t, d, missed = run_mutants(pids, tier)
    t2, d2, missed2 = run_seeded(pids if args else None, tier)
    t3, q3, alarms = run_benign(pids, tier)
    print("selftest: mutants %d/%d detected, seeded %d/%d detected, benign rewrites %d/%d silent" % (d, t, d2, t2, q3, t3))
    for m in missed + missed2:
        print("  MISSED %s %s" % m)
    for m in alarms:
        print("  FALSE-ALARM %s %s" % m)
    return 0
