#!/usr/bin/env python3
"""mk_seed_table.py <selftest output> : markdown table 'seeded change | what it changes | caught by' for DESIGN.md §11.6"""
import json, os, re, sys
caught = {}
for l in open(sys.argv[1]):
    m = re.match(r"^(C\d\d)\s+seeded/(\S+)\s+(DETECTED|MISSED)\s+(.*)$", l.rstrip())
    if m:
        caught[m.group(2)] = (m.group(3), m.group(4).strip())
print("| seeded change | what it changes | caught by |")
print("|---|---|---|")
for name in sorted(os.listdir("/verif/seeded")):
    mp = os.path.join("/verif/seeded", name, "meta.json")
    if not os.path.exists(mp):
        continue
    meta = json.load(open(mp))
    chg = meta.get("change", "").split(" (ported")[0]
    if len(chg) > 150:
        chg = chg[:147] + "..."
    st, what = caught.get(name, ("?", ""))
    rule = what.split(" ")[0] if st == "DETECTED" else "**MISSED**"
    inst = " ".join(what.split(" ")[1:])[:70] if st == "DETECTED" else what[:70]
    print("| %s | %s | %s %s |" % (name, chg.replace("|", "\\|"), rule, inst.replace("|", "\\|")))
