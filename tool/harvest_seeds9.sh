#!/bin/bash
# harvest_seeds6.sh <Cxx> : ninth (one change, seven properties) seeding round. Verify each agent-delivered change in /tmp/wt9-<Cxx>/seed/change{1,2,3} myself
# (unchanged: demo passes; changed: builds, suite passes, demo fails) and copy the valid ones to /verif/seeded/<Cxx>-change{20,21,22}
P="$1"
for C in change1 change2 change3; do
  S=/tmp/wt9-$P/seed/$C
  [ -f "$S/patch.diff" ] || { echo "$P $C: no patch delivered"; continue; }
  V=$(/verif/tool/verify_seed.sh /tmp/wt9-$P $C)
  echo "$P $C: $V"
  if echo "$V" | grep -q "VALID" && ! echo "$V" | grep -q INVALID; then
    case $C in change1) N=change23;; change2) N=change24;; change3) N=change25;; esac
    D=/verif/seeded/$P-$N
    mkdir -p $D
    cp -r $S/* $D/ 2>/dev/null
    rm -f $D/demo $D/*.o $D/a.out
    find $D -type f -size +400k -delete
    find $D -type f -perm -u+x ! -name "*.sh" -exec sh -c 'file "$1" | grep -q ELF && rm -f "$1"' _ {} \;
  fi
done
