#!/bin/sh
# validate MANIFEST.json and all evidence files against the harness schemas
python3-vt - <<'PY'
import json, jsonschema, glob
jsonschema.validate(json.load(open('/verif/MANIFEST.json')), json.load(open('/root/.vp/MANIFEST.schema.json')))
print('manifest valid')
s = json.load(open('/root/.vp/EVIDENCE.schema.json'))
for f in sorted(glob.glob('/verif/evidence/C*.json')):
    jsonschema.validate(json.load(open(f)), s)
print('evidence valid:', len(glob.glob('/verif/evidence/C*.json')))
PY
