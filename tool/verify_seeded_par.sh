#!/bin/bash
# verify_seeded_par.sh <K> <seed-id> ... : like verify_seeded.sh but K scratch worktrees (/tmp/wt-verify-1..K) work in parallel, each on its
# share of the seeds.  Results are appended to /verif/seeded/verify_head.log (one line per seed) with the /repo HEAD they were run against.
K="$1"; shift
HEAD=$(git -C /repo rev-parse --short HEAD)
echo "# run against /repo HEAD $HEAD, $(date -u +%Y-%m-%dT%H:%MZ), $# seeds, $K workers" >> /verif/seeded/verify_head.log
worker() {
  W="$1"; shift
  WT=/tmp/wt-verify-$W
  TMP=/tmp/vsp-$W; mkdir -p $TMP
  if [ ! -d $WT ]; then git -C /repo worktree add -q --detach $WT HEAD || exit 2; fi
  cd $WT && git checkout -q --detach $(git -C /repo rev-parse HEAD) 2>/dev/null; git checkout -q -- .
  if [ ! -d _build ]; then cmake -G Ninja -B _build -S . -DCARES_BUILD_TESTS=ON -DCARES_BUILD_TOOLS=ON -DCMAKE_BUILD_TYPE=RelWithDebInfo >/dev/null 2>&1; fi
  cmake --build _build -j4 >/dev/null 2>&1 || { echo "worker $W BASE BUILD FAILED" >> /verif/seeded/verify_head.log; exit 2; }
  for ID in "$@"; do
    S0=/verif/seeded/$ID
    rm -rf $WT/seed; mkdir -p $WT/seed; cp -r $S0 $WT/seed/change; S=$WT/seed/change
    git checkout -q -- .
    cmake --build _build -j4 >/dev/null 2>&1
    bash "$S/run.sh" "$WT/_build" >$TMP/demo0.out 2>&1; D0=$?
    if ! git apply "$S/patch.diff" 2>$TMP/apply.err; then echo "$ID PATCH-DOES-NOT-APPLY @$HEAD" >> /verif/seeded/verify_head.log; continue; fi
    cmake --build _build -j4 >$TMP/build.out 2>&1 || { echo "$ID BUILD-FAILED @$HEAD" >> /verif/seeded/verify_head.log; git checkout -q -- .; continue; }
    ctest --test-dir _build -j4 --timeout 900 >/dev/null 2>&1
    L=_build/Testing/Temporary/LastTest.log
    P=$(grep -E "^\[  PASSED  \]" $L | grep -o "[0-9]*" | head -1)
    NL=$(grep "^\[  FAILED  \]" $L | grep -v Live | grep -vc "tests, listed below")
    bash "$S/run.sh" "$WT/_build" >$TMP/demo1.out 2>&1; D1=$?
    git checkout -q -- .
    V=INVALID; if [ "$D0" = "0" ] && [ "$D1" != "0" ] && [ "$NL" = "0" ] && [ "${P:-0}" -ge 1100 ]; then V=VALID; fi
    echo "$ID demo_unchanged=$D0 suite_passed=$P nonlive_fail=$NL demo_changed=$D1 => $V @$HEAD" >> /verif/seeded/verify_head.log
  done
  rm -rf $TMP
}
i=0; declare -a G
for ID in "$@"; do G[$((i % K))]+=" $ID"; i=$((i+1)); done
for w in $(seq 0 $((K-1))); do worker $((w+1)) ${G[$w]} & done
wait
echo "# done $(date -u +%Y-%m-%dT%H:%MZ)" >> /verif/seeded/verify_head.log
