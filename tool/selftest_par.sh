#!/bin/bash
# selftest_par.sh <outfile> [jobs] : the full three-way self test, one process per property (each with its own scratch copies), outputs concatenated in property order
OUT="${1:-/tmp/selftest_full.out}"; J="${2:-12}"
D=$(mktemp -d /tmp/selftest-par.XXXXXX)
cd /verif
ls tool/py/rules/C*.py | sed 's/.*\///; s/\.py//' | xargs -P "$J" -I{} sh -c './vf selftest {} > '"$D"'/{}.out 2>&1'
: > "$OUT"
for f in $(ls "$D"/C*.out | sort); do grep -v "^selftest:\|WARNING" "$f" >> "$OUT"; done
python3 - "$D" >> "$OUT" <<'P'
import re, sys, glob
m = [0, 0, 0, 0, 0, 0]
for f in glob.glob(sys.argv[1] + "/C*.out"):
    for l in open(f):
        x = re.match(r"selftest: mutants (\d+)/(\d+) detected, seeded (\d+)/(\d+) detected, benign rewrites (\d+)/(\d+) silent", l)
        if x:
            for i in range(6):
                m[i] += int(x.group(i + 1))
print("selftest: mutants %d/%d detected, seeded %d/%d detected, benign rewrites %d/%d silent" % tuple(m))
P
rm -rf "$D"
tail -1 "$OUT"
