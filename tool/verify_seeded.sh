#!/bin/bash
# verify_seeded.sh <seed-id> ... : re-confirm seeded changes against the CURRENT /repo HEAD in a scratch worktree (/tmp/wt-verify):
# demo passes on the unchanged tree, patch applies, suite still passes, demo fails with the patch.  Appends to /verif/seeded/verify_head.log
WT=/tmp/wt-verify
if [ ! -d $WT ]; then git -C /repo worktree add -q $WT HEAD || exit 2; fi
cd $WT && git checkout -q --detach $(git -C /repo rev-parse HEAD) 2>/dev/null; git checkout -q -- .
if [ ! -d _build ]; then cmake -G Ninja -B _build -S . -DCARES_BUILD_TESTS=ON -DCARES_BUILD_TOOLS=ON -DCMAKE_BUILD_TYPE=RelWithDebInfo >/dev/null 2>&1; fi
cmake --build _build -j8 >/dev/null 2>&1 || { echo "BASE BUILD FAILED"; exit 2; }
for ID in "$@"; do
  S0=/verif/seeded/$ID
  # the demos locate the source tree relative to themselves (<worktree>/seed/<name>/run.sh): stage a copy there
  rm -rf $WT/seed; mkdir -p $WT/seed; cp -r $S0 $WT/seed/change; S=$WT/seed/change
  git checkout -q -- .
  cmake --build _build -j8 >/dev/null 2>&1
  bash "$S/run.sh" "$WT/_build" >/tmp/vs_demo0.out 2>&1; D0=$?
  if ! git apply "$S/patch.diff" 2>/tmp/vs_apply.err; then echo "$ID PATCH-DOES-NOT-APPLY" | tee -a /verif/seeded/verify_head.log; continue; fi
  cmake --build _build -j8 >/tmp/vs_build.out 2>&1 || { echo "$ID BUILD-FAILED" | tee -a /verif/seeded/verify_head.log; git checkout -q -- .; continue; }
  ctest --test-dir _build -j8 --timeout 900 >/dev/null 2>&1
  L=_build/Testing/Temporary/LastTest.log
  P=$(grep -E "^\[  PASSED  \]" $L | grep -o "[0-9]*" | head -1)
  NL=$(grep "^\[  FAILED  \]" $L | grep -v Live | grep -vc "tests, listed below")
  bash "$S/run.sh" "$WT/_build" >/tmp/vs_demo1.out 2>&1; D1=$?
  git checkout -q -- .
  V=INVALID; if [ "$D0" = "0" ] && [ "$D1" != "0" ] && [ "$NL" = "0" ] && [ "${P:-0}" -ge 1100 ]; then V=VALID; fi
  echo "$ID demo_unchanged=$D0 suite_passed=$P nonlive_fail=$NL demo_changed=$D1 => $V" | tee -a /verif/seeded/verify_head.log
done
cmake --build _build -j8 >/dev/null 2>&1
