#!/bin/bash
# harvest_seeds2.sh <Cxx> ... : second seeding round. Verify each agent-delivered change in /tmp/wt2-<Cxx>/seed/change{1,2} myself
# (unchanged: demo passes; changed: builds, suite passes, demo fails) and copy the valid ones to /verif/seeded/<Cxx>-change{3,4}
for P in "$@"; do
  for C in change1 change2; do
    S=/tmp/wt2-$P/seed/$C
    [ -f "$S/patch.diff" ] || { echo "$P $C: no patch delivered"; continue; }
    V=$(/verif/tool/verify_seed.sh /tmp/wt2-$P $C)
    echo "$P $C: $V"
    if echo "$V" | grep -q "VALID" && ! echo "$V" | grep -q INVALID; then
      N=change3; [ "$C" = "change2" ] && N=change4
      D=/verif/seeded/$P-$N
      mkdir -p $D
      cp -r $S/* $D/ 2>/dev/null
      rm -f $D/demo $D/*.o $D/a.out
      find $D -type f -size +400k -delete
    fi
  done
done
