"""precheck_seeds.py <worktree-prefix> <Cxx>...: apply each delivered seed/changeN/patch.diff to a scratch copy and run that property's quick check (before the slow behavioural verification with tool/verify_seed.sh)."""
import sys, os, subprocess, shutil
sys.path.insert(0,'/verif/tool/py'); sys.path.insert(0,'/verif/tool/py/rules')
import selftest, core
PREFIX = sys.argv[1]   # e.g. /tmp/wt9-  (worktrees are <prefix><Cxx>)
for pid in sys.argv[2:]:
    for ch in ("change1","change2","change3"):
        pd = "%s%s/seed/%s/patch.diff" % (PREFIX, pid, ch)
        if not os.path.exists(pd):
            print(pid, ch, "no patch"); continue
        d = selftest.make_scratch()
        try:
            r = subprocess.run(["patch","-p1","-s","-d",d,"-i",pd],stdout=subprocess.PIPE,stderr=subprocess.STDOUT)
            if r.returncode: print(pid, ch, "PATCH FAIL", r.stdout.decode()[-200:]); continue
            for tier in ("quick",):
                viols, broken = selftest.analyse(pid, d, tier)
                print(pid, ch, tier, "DETECTED" if viols else "MISSED", (viols[0]["rule"]+" "+viols[0]["instance"])[:150] if viols else "broken:"+";".join(broken)[:200])
        finally:
            shutil.rmtree(d, ignore_errors=True)
