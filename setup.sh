#!/bin/sh
# Build the fact extractor and produce the configure headers (offline, ~45 s).
set -e
V="$(cd "$(dirname "$0")" && pwd)"
mkdir -p "$V/.cache/bin" "$V/evidence"
SRC="$V/tool/cxfacts/cxfacts.cc"
BIN="$V/.cache/bin/cxfacts"
if [ ! -x "$BIN" ] || [ "$SRC" -nt "$BIN" ]; then
  clang++ $(llvm-config-14 --cxxflags) -fno-rtti -O1 "$SRC" -o "$BIN.tmp" \
    /usr/lib/llvm-14/lib/libclang-cpp.so.14 /usr/lib/llvm-14/lib/libLLVM-14.so
  mv "$BIN.tmp" "$BIN"
fi
# configure headers (ares_config.h / ares_build.h) for the analysed configuration
REPO="${VERIF_REPO:-/repo}"
if [ ! -f "$V/.cache/cfg/ares_config.h" ]; then
  rm -rf "$V/.cache/cfg"
  cmake -S "$REPO" -B "$V/.cache/cfg" -G Ninja -DCARES_BUILD_TESTS=OFF -DCARES_BUILD_TOOLS=OFF >"$V/.cache/cfg.log" 2>&1 || {
    cat "$V/.cache/cfg.log"; exit 1; }
fi
echo "setup ok"
