/* C17: with socket functions that provide no getsockname the client cookie must still be constant per server.
 * ares_addr_equal() returns FALSE for two AF_UNSPEC (all zero) addresses, so ares_cookie_apply() regenerates the
 * client cookie (and drops the server cookie) on every send. Prints the client cookie of the 3 transmissions of one query. */
#include "vs.h"
#include <unistd.h>
static int done=0; static unsigned char cc[3][8]; static int ncc=0;
static void cb(void*arg, ares_status_t st, size_t to, const ares_dns_record_t*r){ (void)arg;(void)to;(void)r;(void)st; done++; }
static ares_ssize_t c_sendto(ares_socket_t s,const void*b,size_t l,int f,const struct sockaddr*a,ares_socklen_t al,void*u){
  const unsigned char*p=b; size_t i;
  /* find OPT option 10 (COOKIE): 00 0a 00 08|.. */
  for(i=12;i+12<=l;i++){ if(p[i]==0 && p[i+1]==10 && p[i+2]==0 && (p[i+3]==8||p[i+3]==16||p[i+3]==24||p[i+3]==40) && ncc<3){ memcpy(cc[ncc++],p+i+4,8); break; } }
  (void)s;(void)f;(void)a;(void)al;(void)u; sends++; return (ares_ssize_t)l; /* server stays silent: the same query is re-sent */ }
int main(void){ ares_channel_t*ch; struct ares_options o; int q; memset(&o,0,sizeof o); ares_library_init(ARES_LIB_INIT_ALL);
  o.tries=3; o.timeout=300; o.qcache_max_ttl=0; o.flags=ARES_FLAG_NOSEARCH|ARES_FLAG_EDNS;
  if(ares_init_options(&ch,&o,ARES_OPT_TRIES|ARES_OPT_TIMEOUTMS|ARES_OPT_QUERY_CACHE|ARES_OPT_FLAGS)!=ARES_SUCCESS) return 2;
  VS.asendto=c_sendto; VS.agetsockname=NULL; ares_set_socket_functions_ex(ch,&VS,NULL); ares_set_servers_csv(ch,"127.0.0.1");
  (void)q; ares_query_dnsrec(ch,"q.example.com",ARES_CLASS_IN,ARES_REC_TYPE_A,cb,NULL,NULL);
  for(int i=0;i<40&&!done;i++){ usleep(100000); ares_process_fds(ch,NULL,0,0); }
  for(q=0;q<ncc;q++){ printf("query %d client cookie:",q+1); for(int i=0;i<8;i++) printf(" %02x",cc[q][i]); printf("\n"); }
  int same = ncc==3 && !memcmp(cc[0],cc[1],8) && !memcmp(cc[1],cc[2],8);
  printf("%s\n", same?"client cookie constant":"client cookie CHANGES between queries to the same server");
  ares_destroy(ch); ares_library_cleanup(); return same?0:1; }
