/* replay: parse_nameserver_uri() fills the caller's ares_sconfig_t without zeroing it (its sibling parse_nameserver() does).  For a
 * dns:// URI without a %zone the ll_iface member keeps whatever the stack slot held -- in ares_sconfig_append_fromstr() that is the
 * interface of the PREVIOUS list entry.  A link-local server given without an interface (which must be ignored) is therefore accepted
 * with its neighbour's interface.  Expected server list: only the first entry. */
#include <ares.h>
#include <errno.h>
#include <stdio.h>
#include <string.h>
#include <stdlib.h>

static ares_socket_t f_socket(int d, int t, int p, void *u) { (void)d; (void)t; (void)p; (void)u; errno = EAFNOSUPPORT; return ARES_SOCKET_BAD; }
static int f_close(ares_socket_t s, void *u) { (void)s; (void)u; return 0; }
static int f_setsockopt(ares_socket_t s, ares_socket_opt_t o, const void *v, ares_socklen_t l, void *u) { (void)s; (void)o; (void)v; (void)l; (void)u; return 0; }
static int f_connect(ares_socket_t s, const struct sockaddr *a, ares_socklen_t l, unsigned int f, void *u) { (void)s; (void)a; (void)l; (void)f; (void)u; errno = ENETUNREACH; return -1; }
static ares_ssize_t f_recvfrom(ares_socket_t s, void *b, size_t l, int f, struct sockaddr *a, ares_socklen_t *al, void *u) { (void)s; (void)b; (void)l; (void)f; (void)a; (void)al; (void)u; errno = EWOULDBLOCK; return -1; }
static ares_ssize_t f_sendto(ares_socket_t s, const void *b, size_t l, int f, const struct sockaddr *a, ares_socklen_t al, void *u) { (void)s; (void)b; (void)l; (void)f; (void)a; (void)al; (void)u; errno = ENETUNREACH; return -1; }
static unsigned int f_nametoindex(const char *ifname, void *u) { (void)u; return (ifname != NULL && strcmp(ifname, "eth7") == 0) ? 7 : 0; }
static const char *f_indextoname(unsigned int idx, char *buf, size_t len, void *u) { (void)u; if (idx != 7 || len < 5) return NULL; strcpy(buf, "eth7"); return buf; }
static const struct ares_socket_functions_ex fake_funcs = { 1, 0, f_socket, f_close, f_setsockopt, f_connect, f_recvfrom, f_sendto, NULL, NULL, f_nametoindex, f_indextoname };

int main(void)
{
  ares_channel_t *ch = NULL;
  struct ares_options o;
  char *csv;
  int bad;
  ares_library_init(ARES_LIB_INIT_ALL);
  memset(&o, 0, sizeof(o));
  o.flags = ARES_FLAG_NOSEARCH;
  if (ares_init_options(&ch, &o, ARES_OPT_FLAGS) != ARES_SUCCESS) return 2;
  if (ares_set_socket_functions_ex(ch, &fake_funcs, NULL) != ARES_SUCCESS) return 2;
  if (ares_set_servers_csv(ch, "dns://[fe80::1%eth7]:53?tcpport=5353,dns://[fe80::2]:53?tcpport=5353") != ARES_SUCCESS) { printf("set failed\n"); return 2; }
  csv = ares_get_servers_csv(ch);
  printf("servers: %s\n", csv ? csv : "(null)");
  bad = (csv == NULL || strstr(csv, "fe80::2") != NULL);
  ares_free_string(csv);
  ares_destroy(ch);
  ares_library_cleanup();
  printf(bad ? "VIOLATION: the link-local server without an interface was accepted with the previous entry's interface\n" : "ok\n");
  return bad;
}
