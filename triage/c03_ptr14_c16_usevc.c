/* C03: compression pointer to an offset >= 16384 is silently truncated; C16: use-vc overrides explicit user flags */
#include <ares.h>
#include <stdio.h>
#include <string.h>
#include <stdlib.h>
int main(void){ ares_library_init(ARES_LIB_INIT_ALL);
  ares_dns_record_t *rec=NULL; ares_dns_rr_t *rr=NULL; char txt[251]; memset(txt,'x',250); txt[250]=0;
  ares_dns_record_create(&rec, 1, ARES_FLAG_QR, ARES_OPCODE_QUERY, ARES_RCODE_NOERROR);
  ares_dns_record_query_add(rec, "q.test", ARES_REC_TYPE_TXT, ARES_CLASS_IN);
  for(int i=0;i<66;i++){ ares_dns_record_rr_add(&rr, rec, ARES_SECTION_ANSWER, "q.test", ARES_REC_TYPE_TXT, ARES_CLASS_IN, 60); ares_dns_rr_add_abin(rr, ARES_RR_TXT_DATA,(const unsigned char*)txt,250); }
  ares_dns_record_rr_add(&rr, rec, ARES_SECTION_ANSWER, "late.zone", ARES_REC_TYPE_TXT, ARES_CLASS_IN, 60); ares_dns_rr_add_abin(rr, ARES_RR_TXT_DATA,(const unsigned char*)"a",1);
  ares_dns_record_rr_add(&rr, rec, ARES_SECTION_ANSWER, "x.late.zone", ARES_REC_TYPE_TXT, ARES_CLASS_IN, 60); ares_dns_rr_add_abin(rr, ARES_RR_TXT_DATA,(const unsigned char*)"b",1);
  unsigned char *buf; size_t len; ares_status_t st=ares_dns_write(rec,&buf,&len); printf("write status=%d len=%zu\n",st,len);
  ares_dns_record_t *back=NULL; st=ares_dns_parse(buf,len,0,&back); printf("re-parse status=%d (%s)\n",st,ares_strerror(st));
  if(back){ size_t n=ares_dns_record_rr_cnt(back,ARES_SECTION_ANSWER); printf("  last owner parsed back as '%s' (wrote 'x.late.zone')\n", ares_dns_rr_get_name(ares_dns_record_rr_get_const(back,ARES_SECTION_ANSWER,n-1))); }
  /* C16 */
  FILE*f=fopen("/tmp/c16_rc2.conf","w"); fputs("nameserver 127.0.0.1\noptions use-vc\n",f); fclose(f);
  ares_channel_t*ch; struct ares_options o,s; int mask=0; memset(&o,0,sizeof o); o.flags=ARES_FLAG_EDNS; o.resolvconf_path=(char*)"/tmp/c16_rc2.conf";
  ares_init_options(&ch,&o,ARES_OPT_FLAGS|ARES_OPT_RESOLVCONF); ares_save_options(ch,&s,&mask);
  printf("user set flags=0x%x explicitly (no USEVC); after init with 'options use-vc' saved flags=0x%x (USEVC %s)\n", (unsigned)o.flags,(unsigned)s.flags,(s.flags&ARES_FLAG_USEVC)?"SET":"clear");
  return 0; }
