/* replay: ares_init_options() installs the default socket functions (including if_nametoindex) only AFTER the system configuration was
 * read, and ares_sconfig_linklocal() needs channel->sock_funcs.aif_nametoindex to validate the interface of a link-local server.
 * A valid `nameserver fe80::1%lo` line in resolv.conf is therefore silently dropped at the first initialisation (it works at a later
 * ares_reinit()).  Expected: the directive takes effect at init. */
#include <ares.h>
#include <stdio.h>
#include <stdlib.h>
#include <string.h>
#include <unistd.h>

int main(void)
{
  ares_channel_t *ch = NULL; struct ares_options o; char path[] = "/tmp/c15ll_resolvXXXXXX"; int fd = mkstemp(path); char *csv; int bad;
  const char *conf = "nameserver fe80::1%lo\nnameserver 192.0.2.53\n";
  if (fd < 0) return 2;
  if (write(fd, conf, strlen(conf)) < 0) return 2;
  close(fd);
  ares_library_init(ARES_LIB_INIT_ALL);
  memset(&o, 0, sizeof(o)); o.resolvconf_path = path; o.flags = ARES_FLAG_NOSEARCH;
  if (ares_init_options(&ch, &o, ARES_OPT_RESOLVCONF | ARES_OPT_FLAGS) != ARES_SUCCESS) { unlink(path); return 2; }
  csv = ares_get_servers_csv(ch);
  printf("servers after init: %s\n", csv ? csv : "(null)");
  bad = (csv == NULL || strstr(csv, "fe80::1") == NULL);
  ares_free_string(csv);
  ares_destroy(ch); ares_library_cleanup(); unlink(path);
  printf(bad ? "VIOLATION: the valid link-local nameserver line was dropped at first init\n" : "ok\n");
  return bad;
}
