/* C20 / R-C20-COUNT: a zero-length UDP datagram makes ares_socket_recvfrom() return success without storing
 * *read_bytes; read_conn_packets() then commits an uninitialised count to the connection's input buffer.
 * Run under valgrind: "Conditional jump or move depends on uninitialised value(s)" in ares_buf_append_finish /
 * read_conn_packets on the unfixed tree; clean with the fix. */
#include "vs.h"
static int done=0;
static void cb(void*arg, ares_status_t st, size_t to, const ares_dns_record_t*r){ done=1; printf("callback status=%d (%s)\n",st,ares_strerror(st)); }
static int zero_mode=1;
static ares_ssize_t z_recvfrom(ares_socket_t s,void*b,size_t l,int f,struct sockaddr*a,ares_socklen_t*al,void*u){
  if(zero_mode && have_reply){ zero_mode=0; /* first: an empty datagram from the server's address */
    if(a&&al){ struct sockaddr_in*sin=(struct sockaddr_in*)a; memset(sin,0,sizeof *sin); sin->sin_family=AF_INET; sin->sin_addr.s_addr=htonl(0x7f000001); sin->sin_port=htons(53); *al=sizeof *sin;}
    return 0; }
  return v_recvfrom(s,b,l,f,a,al,u); }
int main(void){ ares_channel_t*ch; struct ares_options o; memset(&o,0,sizeof o); ares_library_init(ARES_LIB_INIT_ALL);
  o.tries=1; o.timeout=500; o.qcache_max_ttl=0;
  if(ares_init_options(&ch,&o,ARES_OPT_TRIES|ARES_OPT_TIMEOUTMS|ARES_OPT_QUERY_CACHE)!=ARES_SUCCESS) return 2;
  VS.arecvfrom=z_recvfrom; ares_set_socket_functions_ex(ch,&VS,NULL); ares_set_servers_csv(ch,"127.0.0.1");
  ares_query_dnsrec(ch,"zero.example.com",ARES_CLASS_IN,ARES_REC_TYPE_A,cb,NULL,NULL);
  for(int i=0;i<5&&!done;i++){ ares_fd_events_t ev={100,ARES_FD_EVENT_READ}; ares_process_fds(ch,&ev,1,0); }
  printf("done=%d\n",done); ares_destroy(ch); ares_library_cleanup(); return 0; }
