/* C01: a request started from the last EDESTRUCTION callback inside ares_destroy() is accepted but never completed */
#include "vs2.h"
static ares_channel_t*ch; static int started=0, completed=0;
static void cb2(void*arg, ares_status_t st, size_t to, const ares_dns_record_t*r){ completed++; printf("callback for the request started during destroy: status=%d\n",st); }
static void cb(void*arg, ares_status_t st, size_t to, const ares_dns_record_t*r){ printf("callback q1 status=%d (%s)\n",st,ares_strerror(st)); if(st==ARES_EDESTRUCTION){ ares_status_t rc=ares_query_dnsrec(ch,"two.test",ARES_CLASS_IN,ARES_REC_TYPE_A,cb2,NULL,NULL); started=1; printf("  started a new request from the callback: rc=%d\n",rc);} }
int main(void){ struct ares_options o; memset(&o,0,sizeof o); ares_library_init(ARES_LIB_INIT_ALL);
 o.flags=0; ares_init_options(&ch,&o,ARES_OPT_FLAGS); ares_set_socket_functions_ex(ch,&VS,NULL); ares_set_servers_csv(ch,"127.0.0.1"); silent=1;
 ares_query_dnsrec(ch,"one.test",ARES_CLASS_IN,ARES_REC_TYPE_A,cb,NULL,NULL);
 ares_destroy(ch);
 printf("after ares_destroy: started=%d completed=%d\n",started,completed); return 0; }
