/* C01/R-C01-HELD: ares_send_query keeps using `query` after handle_conn_error() let a sibling's callback cancel it */
#include "vs2.h"
static ares_channel_t*ch; static int cancelled=0;
static void cb(void*arg, ares_status_t st, size_t to, const ares_dns_record_t*r){ long id=(long)arg; printf("callback q%ld status=%d (%s)\n",id,st,ares_strerror(st)); fflush(stdout); if(id==1 && !cancelled){ cancelled=1; printf("  q1's callback calls ares_cancel()\n"); ares_cancel(ch);} }
static ares_dns_record_t*mk(const char*n){ ares_dns_record_t*q=NULL; ares_dns_record_create(&q,0,ARES_FLAG_RD,ARES_OPCODE_QUERY,ARES_RCODE_NOERROR); ares_dns_record_query_add(q,n,ARES_REC_TYPE_A,ARES_CLASS_IN); return q; }
int main(void){ struct ares_options o; memset(&o,0,sizeof o); ares_library_init(ARES_LIB_INIT_ALL);
 o.flags=0;o.tries=1; ares_init_options(&ch,&o,ARES_OPT_FLAGS|ARES_OPT_TRIES); ares_set_socket_functions_ex(ch,&VS,NULL); ares_set_servers_csv(ch,"127.0.0.1");
 silent=1;
 ares_send_dnsrec(ch,mk("one.test"),cb,(void*)1L,NULL);   /* q1 sits on socket 100 */
 fail_send_after=1;
 ares_send_dnsrec(ch,mk("two.test"),cb,(void*)2L,NULL);   /* q2: write fails on the same socket */
 printf("done\n"); return 0; }
