/* replay: a name with an escaped dot directly in front of a suffix that was already written ("a\.example.com" after "example.com"): the
 * compression lookup treats the escaped dot as a label separator, cuts the name to "a\" + pointer, and the split of "a\" fails with
 * EBADNAME: a legal record (label "a.example" + "com"?? no: labels "a.example", "com" -- see below) cannot be written.
 * Labels of a\.example.com are [a.example][com]; the owner example.com has labels [example][com]; only "com" is shared. */
#include <ares.h>
#include <stdio.h>
#include <string.h>
int main(void)
{
  ares_dns_record_t *rec = NULL, *back = NULL; ares_dns_rr_t *rr = NULL; unsigned char *buf = NULL; size_t len = 0; int rc, bad = 1;
  ares_library_init(ARES_LIB_INIT_ALL);
  ares_dns_record_create(&rec, 1, ARES_FLAG_QR, ARES_OPCODE_QUERY, ARES_RCODE_NOERROR);
  ares_dns_record_query_add(rec, "example.com", ARES_REC_TYPE_CNAME, ARES_CLASS_IN);
  ares_dns_record_rr_add(&rr, rec, ARES_SECTION_ANSWER, "example.com", ARES_REC_TYPE_CNAME, ARES_CLASS_IN, 60);
  ares_dns_rr_set_str(rr, ARES_RR_CNAME_CNAME, "a\\.example.com");
  rc = ares_dns_write(rec, &buf, &len);
  printf("write = %s\n", ares_strerror(rc));
  if (rc == ARES_SUCCESS) {
    rc = ares_dns_parse(buf, len, 0, &back);
    if (rc == ARES_SUCCESS) {
      const char *b = ares_dns_rr_get_str(ares_dns_record_rr_get(back, ARES_SECTION_ANSWER, 0), ARES_RR_CNAME_CNAME);
      printf("read back: %s\n", b);
      bad = strcmp(b, "a\\.example.com") != 0;
    }
  }
  printf(bad ? "VIOLATION: the name does not survive write + parse\n" : "ok\n");
  return bad;
}
