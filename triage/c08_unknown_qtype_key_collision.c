/* C08: the cache key renders the question type through ares_dns_rec_type_tostr(), which says "UNKNOWN" for every type it has no name
 * for: a DNSKEY (48) query and a DS (43) query for the same name share one cache entry, so the second is answered from the cache
 * with the first one's answer and no network traffic. */
#include "vs.h"
static int done=0;
static void cb(void*arg, ares_status_t st, size_t to, const ares_dns_record_t*r){ (void)arg;(void)to;(void)r;(void)st; done++; }
int main(void){ ares_channel_t*ch; struct ares_options o; memset(&o,0,sizeof o); ares_library_init(ARES_LIB_INIT_ALL);
  o.tries=1; o.timeout=500; o.qcache_max_ttl=3600; o.flags=ARES_FLAG_NOSEARCH;
  if(ares_init_options(&ch,&o,ARES_OPT_TRIES|ARES_OPT_TIMEOUTMS|ARES_OPT_QUERY_CACHE|ARES_OPT_FLAGS)!=ARES_SUCCESS) return 2;
  ares_set_socket_functions_ex(ch,&VS,NULL); ares_set_servers_csv(ch,"127.0.0.1");
  ares_query_dnsrec(ch,"www.example.com",ARES_CLASS_IN,(ares_dns_rec_type_t)48,cb,NULL,NULL);
  for(int i=0;i<5&&done<1;i++){ ares_fd_events_t ev={100,ARES_FD_EVENT_READ}; ares_process_fds(ch,&ev,1,0); }
  int s1=sends;
  ares_query_dnsrec(ch,"www.example.com",ARES_CLASS_IN,(ares_dns_rec_type_t)43,cb,NULL,NULL);
  for(int i=0;i<5&&done<2;i++){ ares_fd_events_t ev={101,ARES_FD_EVENT_READ}; ares_fd_events_t ev2={100,ARES_FD_EVENT_READ}; ares_process_fds(ch,&ev,1,0); ares_process_fds(ch,&ev2,1,0); }
  printf("type 48 query: %d transmission(s); type 43 query for the same name: %d more\n",s1,sends-s1);
  int ok = sends-s1>=1; printf("%s\n", ok?"second question went to the network":"second question was answered from the cache entry of a DIFFERENT type");
  ares_destroy(ch); ares_library_cleanup(); return ok?0:1; }
