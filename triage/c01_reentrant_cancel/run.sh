#!/bin/sh
# usage: run.sh <c-ares build dir> [mode...]   (modes p1 p2 p3 p4)
B=${1:?usage: run.sh <c-ares build dir>}; shift
HERE=$(cd "$(dirname "$0")" && pwd)
SRC=$(cd "$HERE/../.." && pwd)
OUT=$(mktemp -d)
trap 'rm -rf "$OUT"' EXIT
cc -g -O1 -Wall -Wno-unused-function -I"$SRC/include" -I"$B" -I"$HERE" \
   "$HERE/demo.c" -o "$OUT/demo" -L"$B/lib" -lcares -Wl,-rpath,"$B/lib" || exit 98
rc=0
for mode in ${@:-p1 p2 p3 p4}; do
  echo "== $mode"
  timeout 30 "$OUT/demo" $mode || { echo "scenario $mode: violation observed (exit $?)"; rc=1; }
done
exit $rc
