/* NOT a seeded change: scenarios in which the UNCHANGED library was observed to
 * violate the property.  Same test bed as the seeded demonstrations.
 *
 *  p1  one request, its answer arrives, the completion callback calls
 *      ares_cancel() (default flags, i.e. no ARES_FLAG_STAYOPEN).
 *  p2  one request pending, ares_destroy(); the ARES_EDESTRUCTION callback
 *      starts a new request on the channel.
 *  p3  two requests A, B pending on one UDP socket, tries=1.  ares_cancel();
 *      A's ARES_ECANCELLED callback starts a new request whose write fails
 *      (ECONNREFUSED) and no new socket can be created.
 *  p4  request B pending on a UDP socket, tries=1.  A new request N is started,
 *      its write fails (ECONNREFUSED), no new socket can be created; B's
 *      completion callback calls ares_cancel().
 *
 * exit 0 = property holds, anything else = violation.
 */
#include "vnet.h"

typedef struct req {
  const char     *name;
  ares_channel_t *channel;
  int             action; /* what the callback does, see below */
  int             calls;
  int             status;
  struct req     *other;
} req_t;

enum { ACT_NONE, ACT_CANCEL, ACT_NEWREQ_ON_DESTROY, ACT_NEWREQ_FAILING };

static int fail_writes = 0;
static int auto_answer = 0;

static int vn_on_send(ares_socket_t fd, int type, const unsigned char *data,
                      size_t len)
{
  if (type != SOCK_DGRAM) {
    return 0;
  }
  if (fail_writes) {
    return ECONNREFUSED;
  }
  if (auto_answer) {
    size_t         rlen;
    unsigned char *reply =
      vn_mkreply(data, len, ARES_RCODE_NOERROR, 0, 1, NULL, 0, &rlen);
    vn_deliver(fd, reply, rlen);
    free(reply);
  }
  return 0;
}

static void query_cb(void *arg, ares_status_t status, size_t timeouts,
                     const ares_dns_record_t *dnsrec)
{
  req_t *r = arg;
  (void)timeouts;
  (void)dnsrec;
  r->calls++;
  r->status = (int)status;
  printf("  callback for \"%s\" invocation #%d: %s\n", r->name, r->calls,
         ares_strerror((int)status));
  if (r->calls != 1) {
    return;
  }
  switch (r->action) {
    case ACT_CANCEL:
      printf("  callback for \"%s\" calls ares_cancel()\n", r->name);
      ares_cancel(r->channel);
      break;
    case ACT_NEWREQ_ON_DESTROY:
      if (status == ARES_EDESTRUCTION) {
        printf("  callback for \"%s\" starts request \"%s\"\n", r->name,
               r->other->name);
        ares_query_dnsrec(r->channel, r->other->name, ARES_CLASS_IN,
                          ARES_REC_TYPE_A, query_cb, r->other, NULL);
      }
      break;
    case ACT_NEWREQ_FAILING:
      printf("  callback for \"%s\" starts request \"%s\" (write will fail)\n",
             r->name, r->other->name);
      fail_writes    = 1;
      vn_fail_socket = 1;
      ares_query_dnsrec(r->channel, r->other->name, ARES_CLASS_IN,
                        ARES_REC_TYPE_A, query_cb, r->other, NULL);
      fail_writes    = 0;
      vn_fail_socket = 0;
      break;
    default:
      break;
  }
}

static void start(ares_channel_t *channel, req_t *r)
{
  r->channel = channel;
  ares_query_dnsrec(channel, r->name, ARES_CLASS_IN, ARES_REC_TYPE_A, query_cb,
                    r, NULL);
}

int main(int argc, char **argv)
{
  const char     *mode = argc > 1 ? argv[1] : "p1";
  ares_channel_t *channel;
  req_t           a = { "a.example.com", NULL, ACT_NONE, 0, -1, NULL };
  req_t           b = { "b.example.com", NULL, ACT_NONE, 0, -1, NULL };
  req_t           n = { "n.example.com", NULL, ACT_NONE, 0, -1, NULL };
  int             rc = 0;
  int             i;
  int             tries = (mode[1] == '3' || mode[1] == '4') ? 1 : 3;

  vn_init();
  channel = vn_channel(ARES_FLAG_NOSEARCH | ARES_FLAG_EDNS, tries, 500, 0, NULL,
                       0, "127.0.0.1:5301");
  n.channel = channel;

  if (strcmp(mode, "p1") == 0) {
    auto_answer = 1;
    a.action    = ACT_CANCEL;
    start(channel, &a);
    for (i = 0; i < 3; i++) {
      vn_pump(channel);
    }
  } else if (strcmp(mode, "p2") == 0) {
    a.action = ACT_NEWREQ_ON_DESTROY;
    a.other  = &n;
    start(channel, &a);
  } else if (strcmp(mode, "p3") == 0) {
    a.action = ACT_NEWREQ_FAILING;
    a.other  = &n;
    start(channel, &a);
    start(channel, &b);
    ares_cancel(channel);
  } else if (strcmp(mode, "p4") == 0) {
    b.action = ACT_CANCEL;
    start(channel, &b);
    fail_writes    = 1;
    vn_fail_socket = 1;
    start(channel, &n);
    fail_writes    = 0;
    vn_fail_socket = 0;
  }

  ares_destroy(channel);
  ares_library_cleanup();

  if (strcmp(mode, "p1") == 0 && a.calls != 1) {
    rc = 1;
  }
  if (strcmp(mode, "p2") == 0 && (a.calls != 1 || n.calls != 1)) {
    fprintf(stderr,
            "VIOLATION: request \"%s\" was accepted but its callback ran %d "
            "times\n", n.name, n.calls);
    rc = 1;
  }
  if (strcmp(mode, "p3") == 0 &&
      (a.calls != 1 || b.calls != 1 || n.calls != 1)) {
    rc = 1;
  }
  if (strcmp(mode, "p4") == 0 && (b.calls != 1 || n.calls != 1)) {
    rc = 1;
  }
  if (vn_heap_check() != 0 || vn_violations != 0) {
    rc = 1;
  }
  if (vn_heap_live() != 0) {
    fprintf(stderr, "VIOLATION: %zu blocks never released\n", vn_heap_live());
    rc = 1;
  }
  printf("[%s] calls: a=%d b=%d n=%d  %s\n", mode, a.calls, b.calls, n.calls,
         rc ? "FAIL" : "PASS");
  return rc;
}
