/* vnet.h -- tiny deterministic test bed for c-ares demonstrations.
 *
 *  - a VIRTUAL network: all socket operations of the channel are routed (via
 *    ares_set_socket_functions_ex) to in-memory sockets.  Nothing touches the
 *    real network.  The demo supplies vn_on_send(), which plays the DNS server:
 *    it sees every datagram the library writes and may queue replies or inject
 *    a write error.
 *  - a TRACKING allocator (via ares_library_init_mem): freed blocks are filled
 *    with 0xDD and are never reused.  A later write into a freed block is
 *    found by vn_heap_check(); a read of a pointer stored in a freed block
 *    yields 0xdddddddddddddddd and faults (reported by the signal handler);
 *    a second free of the same block is reported at once.
 *
 * Everything is single threaded; the demo drives the channel with vn_pump().
 */
#ifndef VNET_H
#define VNET_H

#include <ares.h>
#include <arpa/inet.h>
#include <errno.h>
#include <netinet/in.h>
#include <signal.h>
#include <stdio.h>
#include <stdlib.h>
#include <string.h>
#include <sys/socket.h>
#include <time.h>
#include <unistd.h>

/* ------------------------------------------------------------------------ */
/* Tracking allocator                                                        */
/* ------------------------------------------------------------------------ */
#define VN_POISON 0xDD

typedef struct vn_blk {
  struct vn_blk *next;
  size_t         size;
  int            freed;
  unsigned long  serial;
  unsigned long  magic;
} vn_blk_t;

#define VN_MAGIC 0xA11C0C8EDUL
static vn_blk_t     *vn_blocks      = NULL;
static unsigned long vn_serial      = 0;
static long          vn_fail_alloc  = -1; /* fail the Nth allocation from now */
static int           vn_violations  = 0;

static void vn_violation(const char *msg)
{
  fprintf(stderr, "VIOLATION: %s\n", msg);
  vn_violations++;
}

static void *vn_malloc(size_t size)
{
  vn_blk_t *b;
  if (vn_fail_alloc == 0) {
    vn_fail_alloc = -1;
    return NULL;
  }
  if (vn_fail_alloc > 0) {
    vn_fail_alloc--;
  }
  b = malloc(sizeof(*b) + size);
  if (b == NULL) {
    return NULL;
  }
  b->next   = vn_blocks;
  b->size   = size;
  b->freed  = 0;
  b->serial = ++vn_serial;
  b->magic  = VN_MAGIC;
  vn_blocks = b;
  memset(b + 1, 0xAA, size); /* uninitialised memory is not zero */
  return b + 1;
}

static void vn_free(void *p)
{
  vn_blk_t *b;
  if (p == NULL) {
    return;
  }
  b = ((vn_blk_t *)p) - 1;
  if (b->magic != VN_MAGIC) {
    vn_violation("free() of a pointer that was not allocated");
    fflush(NULL);
    _exit(4);
  }
  if (b->freed) {
    fprintf(stderr, "VIOLATION: double free of block #%lu (%zu bytes)\n",
            b->serial, b->size);
    fflush(NULL);
    _exit(4);
  }
  b->freed = 1;
  memset(b + 1, VN_POISON, b->size); /* quarantined for ever, never reused */
}

static void *vn_realloc(void *p, size_t size)
{
  void     *n;
  vn_blk_t *b;
  if (p == NULL) {
    return vn_malloc(size);
  }
  b = ((vn_blk_t *)p) - 1;
  n = vn_malloc(size);
  if (n == NULL) {
    return NULL;
  }
  memcpy(n, p, b->size < size ? b->size : size);
  vn_free(p);
  return n;
}

/* Returns number of freed blocks that were written to after being freed */
static int vn_heap_check(void)
{
  vn_blk_t *b;
  int       bad = 0;
  for (b = vn_blocks; b != NULL; b = b->next) {
    const unsigned char *d = (const unsigned char *)(b + 1);
    size_t               i;
    if (!b->freed) {
      continue;
    }
    for (i = 0; i < b->size; i++) {
      if (d[i] != VN_POISON) {
        fprintf(stderr,
                "VIOLATION: freed block #%lu (%zu bytes) was written to after "
                "it was released (offset %zu)\n",
                b->serial, b->size, i);
        bad++;
        break;
      }
    }
  }
  vn_violations += bad;
  return bad;
}

/* Number of blocks still allocated (leak check after ares_library_cleanup) */
static size_t vn_heap_live(void)
{
  vn_blk_t *b;
  size_t    n = 0;
  for (b = vn_blocks; b != NULL; b = b->next) {
    if (!b->freed) {
      n++;
    }
  }
  return n;
}

static void vn_sig(int sig)
{
  static const char msg[] =
    "VIOLATION: fatal signal inside the library (use of released memory)\n";
  (void)sig;
  if (write(2, msg, sizeof(msg) - 1) < 0) {
    _exit(3);
  }
  _exit(3);
}

/* ------------------------------------------------------------------------ */
/* Virtual sockets                                                           */
/* ------------------------------------------------------------------------ */
#define VN_MAXSOCK 64
#define VN_MAXPKT  16
#define VN_FD_BASE 1000

typedef struct {
  unsigned char *data;
  size_t         len;
} vn_pkt_t;

typedef struct {
  int                in_use;
  int                type; /* SOCK_DGRAM / SOCK_STREAM */
  int                connected;
  struct sockaddr_in peer;
  vn_pkt_t           inq[VN_MAXPKT];
  size_t             inq_cnt;
  int                rd_errno; /* when queue is empty: fail reads with this */
  unsigned long      sends;    /* number of successful writes */
} vn_sock_t;

static vn_sock_t     vn_socks[VN_MAXSOCK];
static int           vn_fail_socket   = 0; /* asocket() fails while non-zero */
static unsigned long vn_sockets_opened = 0;
static unsigned long vn_sockets_closed = 0;
static unsigned long vn_total_sends    = 0;

/* Supplied by the demo: called for each write.  Return 0 to accept the data,
 * or an errno value to make the write fail with that error. */
static int vn_on_send(ares_socket_t fd, int type, const unsigned char *data,
                      size_t len);

static vn_sock_t *vn_get(ares_socket_t fd)
{
  int idx = (int)fd - VN_FD_BASE;
  if (idx < 0 || idx >= VN_MAXSOCK || !vn_socks[idx].in_use) {
    return NULL;
  }
  return &vn_socks[idx];
}

/* Queue a packet for the library to read on fd */
static void vn_deliver(ares_socket_t fd, const unsigned char *data, size_t len)
{
  vn_sock_t *s = vn_get(fd);
  if (s == NULL || s->inq_cnt >= VN_MAXPKT) {
    fprintf(stderr, "harness: cannot deliver on fd %d\n", (int)fd);
    exit(99);
  }
  s->inq[s->inq_cnt].data = malloc(len ? len : 1);
  memcpy(s->inq[s->inq_cnt].data, data, len);
  s->inq[s->inq_cnt].len = len;
  s->inq_cnt++;
}

static ares_socket_t vn_asocket(int domain, int type, int protocol, void *ud)
{
  int i;
  (void)protocol;
  (void)ud;
  if (vn_fail_socket || domain != AF_INET) {
    errno = (domain != AF_INET) ? EAFNOSUPPORT : EMFILE;
    return ARES_SOCKET_BAD;
  }
  for (i = 0; i < VN_MAXSOCK; i++) {
    if (!vn_socks[i].in_use) {
      memset(&vn_socks[i], 0, sizeof(vn_socks[i]));
      vn_socks[i].in_use = 1;
      vn_socks[i].type   = type;
      vn_sockets_opened++;
      return (ares_socket_t)(VN_FD_BASE + i);
    }
  }
  errno = EMFILE;
  return ARES_SOCKET_BAD;
}

static int vn_aclose(ares_socket_t fd, void *ud)
{
  vn_sock_t *s = vn_get(fd);
  size_t     i;
  (void)ud;
  if (s == NULL) {
    vn_violation("close() of a socket that is not open");
    errno = EBADF;
    return -1;
  }
  for (i = 0; i < s->inq_cnt; i++) {
    free(s->inq[i].data);
  }
  s->in_use = 0;
  vn_sockets_closed++;
  return 0;
}

static int vn_asetsockopt(ares_socket_t fd, ares_socket_opt_t opt,
                          const void *val, ares_socklen_t len, void *ud)
{
  (void)fd;
  (void)val;
  (void)len;
  (void)ud;
  if (opt == ARES_SOCKET_OPT_TCP_FASTOPEN) {
    errno = ENOSYS;
    return -1;
  }
  return 0;
}

static int vn_aconnect(ares_socket_t fd, const struct sockaddr *sa,
                       ares_socklen_t salen, unsigned int flags, void *ud)
{
  vn_sock_t *s = vn_get(fd);
  (void)flags;
  (void)ud;
  if (s == NULL || sa->sa_family != AF_INET || salen < sizeof(s->peer)) {
    errno = EBADF;
    return -1;
  }
  memcpy(&s->peer, sa, sizeof(s->peer));
  s->connected = 1;
  return 0;
}

static ares_ssize_t vn_arecvfrom(ares_socket_t fd, void *buf, size_t len,
                                 int flags, struct sockaddr *from,
                                 ares_socklen_t *fromlen, void *ud)
{
  vn_sock_t *s = vn_get(fd);
  size_t     n;
  (void)flags;
  (void)ud;
  if (s == NULL) {
    vn_violation("read on a socket that is not open");
    errno = EBADF;
    return -1;
  }
  if (s->inq_cnt == 0) {
    errno = s->rd_errno ? s->rd_errno : EAGAIN;
    return -1;
  }
  n = s->inq[0].len < len ? s->inq[0].len : len;
  memcpy(buf, s->inq[0].data, n);
  if (s->type == SOCK_STREAM && n < s->inq[0].len) {
    memmove(s->inq[0].data, s->inq[0].data + n, s->inq[0].len - n);
    s->inq[0].len -= n;
  } else {
    free(s->inq[0].data);
    memmove(&s->inq[0], &s->inq[1], sizeof(s->inq[0]) * (s->inq_cnt - 1));
    s->inq_cnt--;
  }
  if (from != NULL && fromlen != NULL && *fromlen >= sizeof(s->peer)) {
    memcpy(from, &s->peer, sizeof(s->peer));
    *fromlen = sizeof(s->peer);
  }
  return (ares_ssize_t)n;
}

static ares_ssize_t vn_asendto(ares_socket_t fd, const void *buf, size_t len,
                               int flags, const struct sockaddr *to,
                               ares_socklen_t tolen, void *ud)
{
  vn_sock_t *s = vn_get(fd);
  int        err;
  (void)flags;
  (void)to;
  (void)tolen;
  (void)ud;
  if (s == NULL) {
    vn_violation("write on a socket that is not open");
    errno = EBADF;
    return -1;
  }
  err = vn_on_send(fd, s->type, buf, len);
  if (err != 0) {
    errno = err;
    return -1;
  }
  s->sends++;
  vn_total_sends++;
  return (ares_ssize_t)len;
}

static int vn_agetsockname(ares_socket_t fd, struct sockaddr *sa,
                           ares_socklen_t *salen, void *ud)
{
  struct sockaddr_in sin;
  (void)ud;
  if (vn_get(fd) == NULL || *salen < sizeof(sin)) {
    errno = EBADF;
    return -1;
  }
  memset(&sin, 0, sizeof(sin));
  sin.sin_family      = AF_INET;
  sin.sin_port        = htons((unsigned short)(40000 + fd));
  sin.sin_addr.s_addr = htonl(INADDR_LOOPBACK);
  memcpy(sa, &sin, sizeof(sin));
  *salen = sizeof(sin);
  return 0;
}

/* Let the library read everything that is queued, then run its timers */
static void vn_pump(ares_channel_t *channel)
{
  int i;
  int again;
  do {
    again = 0;
    for (i = 0; i < VN_MAXSOCK; i++) {
      if (vn_socks[i].in_use &&
          (vn_socks[i].inq_cnt > 0 || vn_socks[i].rd_errno != 0)) {
        ares_process_fd(channel, (ares_socket_t)(VN_FD_BASE + i),
                        ARES_SOCKET_BAD);
        again = 1;
        break;
      }
    }
  } while (again);
  ares_process_fd(channel, ARES_SOCKET_BAD, ARES_SOCKET_BAD);
}

static void vn_sleep_ms(long ms)
{
  struct timespec ts;
  ts.tv_sec  = ms / 1000;
  ts.tv_nsec = (ms % 1000) * 1000000L;
  nanosleep(&ts, NULL);
}

/* Library + channel set-up.  `flags`, `tries`, `timeout_ms`, optional search
 * `domains`, `nservers` virtual servers 127.0.0.1:5301.. */
static ares_channel_t *vn_channel(int flags, int tries, int timeout_ms,
                                  int qcache_ttl, char **domains, int ndomains,
                                  const char *servers_csv)
{
  struct ares_options            opts;
  struct ares_socket_functions_ex f;
  ares_channel_t                 *channel = NULL;
  int                             optmask;
  int                             rc;

  memset(&opts, 0, sizeof(opts));
  opts.flags          = flags;
  opts.tries          = tries;
  opts.timeout        = timeout_ms;
  opts.lookups        = (char *)"b";
  opts.domains        = domains;
  opts.ndomains       = ndomains;
  opts.qcache_max_ttl = (unsigned int)qcache_ttl;
  optmask = ARES_OPT_FLAGS | ARES_OPT_TRIES | ARES_OPT_TIMEOUTMS |
            ARES_OPT_LOOKUPS | ARES_OPT_DOMAINS | ARES_OPT_QUERY_CACHE;

  rc = ares_init_options(&channel, &opts, optmask);
  if (rc != ARES_SUCCESS) {
    fprintf(stderr, "harness: ares_init_options: %s\n", ares_strerror(rc));
    exit(99);
  }

  memset(&f, 0, sizeof(f));
  f.version      = 1;
  f.flags        = ARES_SOCKFUNC_FLAG_NONBLOCKING;
  f.asocket      = vn_asocket;
  f.aclose       = vn_aclose;
  f.asetsockopt  = vn_asetsockopt;
  f.aconnect     = vn_aconnect;
  f.arecvfrom    = vn_arecvfrom;
  f.asendto      = vn_asendto;
  f.agetsockname = vn_agetsockname;
  rc = ares_set_socket_functions_ex(channel, &f, NULL);
  if (rc != ARES_SUCCESS) {
    fprintf(stderr, "harness: set_socket_functions_ex: %s\n",
            ares_strerror(rc));
    exit(99);
  }

  rc = ares_set_servers_ports_csv(channel, servers_csv);
  if (rc != ARES_SUCCESS) {
    fprintf(stderr, "harness: set_servers: %s\n", ares_strerror(rc));
    exit(99);
  }
  return channel;
}

static void vn_init(void)
{
  int rc;
  signal(SIGSEGV, vn_sig);
  signal(SIGBUS, vn_sig);
  signal(SIGABRT, vn_sig);
  signal(SIGFPE, vn_sig);
  setvbuf(stdout, NULL, _IONBF, 0);
  rc = ares_library_init_mem(ARES_LIB_INIT_ALL, vn_malloc, vn_free, vn_realloc);
  if (rc != ARES_SUCCESS) {
    fprintf(stderr, "harness: ares_library_init_mem failed\n");
    exit(99);
  }
}

/* ------------------------------------------------------------------------ */
/* DNS server helpers                                                        */
/* ------------------------------------------------------------------------ */

/* Build a reply for the request in req/reqlen.
 *   rcode      reply code
 *   xflags     extra header flags (e.g. ARES_FLAG_TC)
 *   with_addr  add one A/AAAA answer matching the question type
 *   cookie     when non-NULL: add an OPT RR carrying this cookie option
 * Result must be free()d by the caller. */
static unsigned char *vn_mkreply(const unsigned char *req, size_t reqlen,
                                 ares_dns_rcode_t rcode, unsigned short xflags,
                                 int with_addr, const unsigned char *cookie,
                                 size_t cookie_len, size_t *outlen)
{
  ares_dns_record_t  *q = NULL;
  ares_dns_record_t  *r = NULL;
  const char         *name;
  ares_dns_rec_type_t qtype;
  ares_dns_class_t    qclass;
  unsigned char      *abuf = NULL;
  unsigned char      *out;
  ares_dns_rr_t      *rr;

  if (ares_dns_parse(req, reqlen, 0, &q) != ARES_SUCCESS ||
      ares_dns_record_query_get(q, 0, &name, &qtype, &qclass) != ARES_SUCCESS) {
    fprintf(stderr, "harness: cannot parse request\n");
    exit(99);
  }
  if (ares_dns_record_create(&r, ares_dns_record_get_id(q),
                             (unsigned short)(ARES_FLAG_QR | ARES_FLAG_RD |
                                              ARES_FLAG_RA | xflags),
                             ARES_OPCODE_QUERY, rcode) != ARES_SUCCESS ||
      ares_dns_record_query_add(r, name, qtype, qclass) != ARES_SUCCESS) {
    exit(99);
  }
  if (with_addr && qtype == ARES_REC_TYPE_A) {
    struct in_addr a;
    a.s_addr = htonl(0x0A000001);
    if (ares_dns_record_rr_add(&rr, r, ARES_SECTION_ANSWER, name,
                               ARES_REC_TYPE_A, ARES_CLASS_IN,
                               300) != ARES_SUCCESS ||
        ares_dns_rr_set_addr(rr, ARES_RR_A_ADDR, &a) != ARES_SUCCESS) {
      exit(99);
    }
  } else if (with_addr && qtype == ARES_REC_TYPE_AAAA) {
    struct ares_in6_addr a6;
    memset(&a6, 0, sizeof(a6));
    ((unsigned char *)&a6)[0]  = 0xfd;
    ((unsigned char *)&a6)[15] = 1;
    if (ares_dns_record_rr_add(&rr, r, ARES_SECTION_ANSWER, name,
                               ARES_REC_TYPE_AAAA, ARES_CLASS_IN,
                               300) != ARES_SUCCESS ||
        ares_dns_rr_set_addr6(rr, ARES_RR_AAAA_ADDR, &a6) != ARES_SUCCESS) {
      exit(99);
    }
  }
  if (cookie != NULL) {
    if (ares_dns_record_rr_add(&rr, r, ARES_SECTION_ADDITIONAL, "",
                               ARES_REC_TYPE_OPT, ARES_CLASS_IN,
                               0) != ARES_SUCCESS ||
        ares_dns_rr_set_u16(rr, ARES_RR_OPT_UDP_SIZE, 1232) != ARES_SUCCESS ||
        ares_dns_rr_set_u8(rr, ARES_RR_OPT_VERSION, 0) != ARES_SUCCESS ||
        ares_dns_rr_set_u16(rr, ARES_RR_OPT_FLAGS, 0) != ARES_SUCCESS ||
        ares_dns_rr_set_opt(rr, ARES_RR_OPT_OPTIONS, ARES_OPT_PARAM_COOKIE,
                            cookie, cookie_len) != ARES_SUCCESS) {
      exit(99);
    }
  }
  if (ares_dns_write(r, &abuf, outlen) != ARES_SUCCESS) {
    fprintf(stderr, "harness: cannot write reply\n");
    exit(99);
  }
  out = malloc(*outlen);
  memcpy(out, abuf, *outlen);
  ares_free_string(abuf);
  ares_dns_record_destroy(q);
  ares_dns_record_destroy(r);
  return out;
}

/* Extract question name/type and the client cookie (if any) of a request */
static void vn_request_info(const unsigned char *req, size_t reqlen, char *name,
                            size_t namelen, ares_dns_rec_type_t *qtype,
                            unsigned char *ccookie, size_t *ccookie_len)
{
  ares_dns_record_t   *q = NULL;
  const char          *n;
  ares_dns_class_t     qclass;
  size_t               i;

  if (ccookie_len != NULL) {
    *ccookie_len = 0;
  }
  if (ares_dns_parse(req, reqlen, 0, &q) != ARES_SUCCESS ||
      ares_dns_record_query_get(q, 0, &n, qtype, &qclass) != ARES_SUCCESS) {
    fprintf(stderr, "harness: cannot parse request\n");
    exit(99);
  }
  snprintf(name, namelen, "%s", n);
  for (i = 0; ccookie != NULL &&
              i < ares_dns_record_rr_cnt(q, ARES_SECTION_ADDITIONAL);
       i++) {
    const ares_dns_rr_t *rr =
      ares_dns_record_rr_get_const(q, ARES_SECTION_ADDITIONAL, i);
    const unsigned char *val;
    size_t               len;
    if (ares_dns_rr_get_type(rr) == ARES_REC_TYPE_OPT &&
        ares_dns_rr_get_opt_byid(rr, ARES_RR_OPT_OPTIONS, ARES_OPT_PARAM_COOKIE,
                                 &val, &len) &&
        len >= 8) {
      memcpy(ccookie, val, 8);
      *ccookie_len = 8;
    }
  }
  ares_dns_record_destroy(q);
}

#endif
