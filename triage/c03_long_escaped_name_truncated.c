/* C03: ares_dns_name_write() copies the presentation name into name_copy[512] with a truncating copy and does not notice
 * the truncation: a (legal, <= 255 wire bytes) name whose escaped text form is longer than 511 characters is written
 * "successfully" as a different name. */
#include <ares.h>
#include <stdio.h>
#include <string.h>
#include <stdlib.h>
int main(int argc,char**argv){ ares_dns_record_t*rec=NULL,*back=NULL; ares_dns_rr_t*rr=NULL; unsigned char*buf=NULL; size_t len=0; char name[1024]; size_t n=0; int l,i; ares_status_t st;
  ares_library_init(ARES_LIB_INIT_ALL);
  { int pad = argc > 1 ? atoi(argv[1]) : 1; for(i=0;i<pad;i++) name[n++]='a';
    for(l=0;l<3;l++){ for(i=0;i<(l==0?60-pad:60);i++){ n+=(size_t)sprintf(name+n,"\\%03d",1+((l*60+i)%30)); } name[n++]='.'; } strcpy(name+n,"example.com"); }
  ares_dns_record_create(&rec,1,ARES_FLAG_QR,ARES_OPCODE_QUERY,ARES_RCODE_NOERROR);
  ares_dns_record_query_add(rec,"example.com",ARES_REC_TYPE_SRV,ARES_CLASS_IN);
  ares_dns_record_rr_add(&rr,rec,ARES_SECTION_ANSWER,"example.com",ARES_REC_TYPE_SRV,ARES_CLASS_IN,60);
  ares_dns_rr_set_u16(rr,ARES_RR_SRV_PRIORITY,1); ares_dns_rr_set_u16(rr,ARES_RR_SRV_WEIGHT,1); ares_dns_rr_set_u16(rr,ARES_RR_SRV_PORT,1);
  st=ares_dns_rr_set_str(rr,ARES_RR_SRV_TARGET,name); printf("set target (%zu chars): %s\n",strlen(name),ares_strerror(st));
  st=ares_dns_write(rec,&buf,&len); printf("write: %s (%zu bytes)\n",ares_strerror(st),len);
  if(st!=ARES_SUCCESS){ printf("serialisation refused: nothing to compare (property holds vacuously)\n"); return 0; }
  st=ares_dns_parse(buf,len,0,&back); printf("parse back: %s\n",ares_strerror(st));
  if(st!=ARES_SUCCESS) return 1;
  const char*t=ares_dns_rr_get_str(ares_dns_record_rr_get(back,ARES_SECTION_ANSWER,0),ARES_RR_SRV_TARGET);
  printf("target read back has %zu chars; %s\n",strlen(t), strcmp(t,name)==0?"equal":"DIFFERENT from what was written");
  return strcmp(t,name)==0?0:1; }
