#include "vs2.h"
static void cb(void*arg, ares_status_t st, size_t to, const ares_dns_record_t*r){ printf("search callback status=%d (%s)\n",st,ares_strerror(st)); fflush(stdout); }
int main(void){ ares_channel_t*ch=NULL; struct ares_options o; memset(&o,0,sizeof o); int rc=ares_library_init(ARES_LIB_INIT_ALL);
 char*doms[2]={(char*)"one.test",(char*)"two.test"}; o.domains=doms;o.ndomains=2;o.flags=0;o.tries=1;
 rc=ares_init_options(&ch,&o,ARES_OPT_DOMAINS|ARES_OPT_FLAGS|ARES_OPT_TRIES); printf("init rc=%d\n",rc); fflush(stdout);
 ares_set_socket_functions_ex(ch,&VS,NULL); rc=ares_set_servers_csv(ch,"127.0.0.1"); printf("servers rc=%d\n",rc);
 ares_dns_record_t*q=NULL; rc=ares_dns_record_create(&q,0,ARES_FLAG_RD,ARES_OPCODE_QUERY,ARES_RCODE_NOERROR); ares_dns_record_query_add(q,"host",ARES_REC_TYPE_A,ARES_CLASS_IN); printf("q rc=%d\n",rc);
 rcode_next=3; fail_send_after=1;
 rc=ares_search_dnsrec(ch,q,cb,NULL); printf("search rc=%d sends=%d\n",rc,sends); fflush(stdout);
 ares_process_fd(ch,100,ARES_SOCKET_BAD);
 printf("after process\n"); fflush(stdout);
 ares_destroy(ch); return 0; }
