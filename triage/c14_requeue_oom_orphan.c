/* Exploratory check (not one of the seeded changes): does an allocation
 * failure while a reply is being processed leave a query without a timeout? */
#include <ares.h>
#include <arpa/inet.h>
#include <netinet/in.h>
#include <stdio.h>
#include <stdlib.h>
#include <string.h>
#include <sys/select.h>
#include <sys/socket.h>
#include <unistd.h>

static long armed = -1; /* fail when this reaches 0 */
static void *my_malloc(size_t n) { if (armed >= 0 && armed-- == 0) return NULL; return malloc(n); }
static void *my_realloc(void *p, size_t n) { if (armed >= 0 && armed-- == 0) return NULL; return realloc(p, n); }
static void my_free(void *p) { free(p); }

static int done, status;
static void cb(void *arg, ares_status_t st, size_t t, const ares_dns_record_t *r)
{ (void)arg; (void)t; (void)r; done = 1; status = (int)st; }

static unsigned char *tc_reply(const unsigned char *req, size_t len, size_t *olen)
{
  ares_dns_record_t *q = NULL, *r = NULL; const char *name; ares_dns_rec_type_t t; ares_dns_class_t c;
  unsigned char *out = NULL;
  if (ares_dns_parse(req, len, 0, &q) != ARES_SUCCESS) return NULL;
  ares_dns_record_query_get(q, 0, &name, &t, &c);
  ares_dns_record_create(&r, ares_dns_record_get_id(q), ARES_FLAG_QR | ARES_FLAG_TC, ARES_OPCODE_QUERY, ARES_RCODE_NOERROR);
  ares_dns_record_query_add(r, name, t, c);
  ares_dns_write(r, &out, olen);
  ares_dns_record_destroy(q); ares_dns_record_destroy(r);
  return out;
}

int main(void)
{
  long n; int orphans = 0;
  ares_library_init_mem(ARES_LIB_INIT_ALL, my_malloc, my_free, my_realloc);
  for (n = 0; n < 120; n++) {
    struct ares_options opts; ares_channel_t *ch = NULL; struct sockaddr_in sin; socklen_t sl = sizeof(sin);
    int srv = socket(AF_INET, SOCK_DGRAM, 0); char csv[64]; unsigned char buf[1500]; ssize_t got;
    struct sockaddr_storage from; socklen_t fl = sizeof(from); unsigned char *rep; size_t rl;
    fd_set r, w; int nfds; struct timeval tv, *tvp;
    memset(&sin, 0, sizeof(sin)); sin.sin_family = AF_INET; sin.sin_addr.s_addr = htonl(INADDR_LOOPBACK);
    bind(srv, (struct sockaddr *)&sin, sizeof(sin)); getsockname(srv, (struct sockaddr *)&sin, &sl);
    snprintf(csv, sizeof(csv), "127.0.0.1:%u", (unsigned)ntohs(sin.sin_port));
    memset(&opts, 0, sizeof(opts)); opts.timeout = 3000; opts.tries = 2; opts.flags = ARES_FLAG_EDNS | ARES_FLAG_NOSEARCH;
    armed = -1; done = 0;
    if (ares_init_options(&ch, &opts, ARES_OPT_TIMEOUTMS | ARES_OPT_TRIES | ARES_OPT_FLAGS) != ARES_SUCCESS) return 2;
    ares_set_servers_ports_csv(ch, csv);
    ares_query_dnsrec(ch, "example.com", ARES_CLASS_IN, ARES_REC_TYPE_A, cb, NULL, NULL);
    got = recvfrom(srv, buf, sizeof(buf), 0, (struct sockaddr *)&from, &fl);
    rep = tc_reply(buf, (size_t)got, &rl);
    sendto(srv, rep, rl, 0, (struct sockaddr *)&from, fl); ares_free_string(rep);
    FD_ZERO(&r); FD_ZERO(&w); nfds = ares_fds(ch, &r, &w); tv.tv_sec = 1; tv.tv_usec = 0;
    select(nfds, &r, &w, NULL, &tv);
    armed = n;              /* fail the n-th allocation while the reply is processed */
    ares_process(ch, &r, &w);
    armed = -1;
    tvp = ares_timeout(ch, NULL, &tv);
    if (!done && ares_queue_active_queries(ch) > 0 && tvp == NULL) {
      printf("n=%ld: query pending, but no timeout scheduled and no connection -> stuck\n", n);
      orphans++;
    }
    ares_destroy(ch); close(srv);
  }
  printf("orphans=%d\n", orphans);
  return orphans ? 1 : 0;
}
