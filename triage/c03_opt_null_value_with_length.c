/* replay: ares_dns_rr_set_opt(rr, key, opt, NULL, 5) stores an option with no value and length 5; the writer emits the length (5) and no value
 * bytes, so the message is malformed: serialisation succeeds, parse-back fails (or mis-reads what follows). */
#include <ares.h>
#include <stdio.h>
int main(void)
{
  ares_dns_record_t *rec = NULL, *back = NULL; ares_dns_rr_t *rr = NULL; unsigned char *buf = NULL; size_t len = 0; int rc, rc2 = -1, bad;
  ares_library_init(ARES_LIB_INIT_ALL);
  ares_dns_record_create(&rec, 1, ARES_FLAG_RD, ARES_OPCODE_QUERY, ARES_RCODE_NOERROR);
  ares_dns_record_query_add(rec, "example.com", ARES_REC_TYPE_A, ARES_CLASS_IN);
  ares_dns_record_rr_add(&rr, rec, ARES_SECTION_ADDITIONAL, "", ARES_REC_TYPE_OPT, ARES_CLASS_IN, 0);
  ares_dns_rr_set_u16(rr, ARES_RR_OPT_UDP_SIZE, 1232);
  rc = ares_dns_rr_set_opt(rr, ARES_RR_OPT_OPTIONS, 65001, NULL, 5);
  printf("set_opt(NULL, 5) = %s\n", ares_strerror(rc));
  if (rc == ARES_SUCCESS) {
    rc = ares_dns_write(rec, &buf, &len);
    printf("write = %s (%zu bytes)\n", ares_strerror(rc), len);
    if (rc == ARES_SUCCESS) { rc2 = ares_dns_parse(buf, len, 0, &back); printf("parse back = %s\n", ares_strerror(rc2)); }
  }
  bad = (rc == ARES_SUCCESS && rc2 != ARES_SUCCESS);
  printf(bad ? "VIOLATION: serialisation succeeded, the bytes do not parse\n" : "ok\n");
  return bad;
}
