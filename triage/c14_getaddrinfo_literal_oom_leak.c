/* C14: ares_getaddrinfo() on an IP literal: when ares_append_ai_node() fails inside fake_addrinfo() the callback gets ENOMEM but the
 * ares_addrinfo allocated by the caller is never released.  Sweeps the failing allocation; no block may stay allocated. */
#include <ares.h>
#include <stdio.h>
#include <stdlib.h>
#include <string.h>
static long live=0, count=0, failat=0;
static void *m(size_t n){ count++; if(failat && count==failat) return NULL; void*p=malloc(n); if(p) live++; return p; }
static void f(void*p){ if(p){ live--; free(p);} }
static void *r(void*p,size_t n){ count++; if(failat && count==failat) return NULL; if(!p){ void*q=malloc(n); if(q) live++; return q;} return realloc(p,n); }
static void cb(void*arg,int st,int to,struct ares_addrinfo*ai){ (void)arg;(void)to;(void)st; if(ai) ares_freeaddrinfo(ai); }
int main(void){ int leaks=0; long n;
  for(n=1;n<40;n++){ ares_channel_t*ch=NULL; struct ares_options o; struct ares_addrinfo_hints h; memset(&o,0,sizeof o); memset(&h,0,sizeof h); h.ai_family=AF_UNSPEC;
    failat=0; ares_library_init_mem(ARES_LIB_INIT_ALL,m,f,r); o.resolvconf_path=(char*)"/dev/null"; o.lookups=(char*)"b";
    if(ares_init_options(&ch,&o,ARES_OPT_RESOLVCONF|ARES_OPT_LOOKUPS)!=ARES_SUCCESS){ ares_library_cleanup(); continue; }
    long base=live; count=0; failat=n; ares_getaddrinfo(ch,"192.0.2.1",NULL,&h,cb,NULL); failat=0; long used=count;
    if(live!=base){ printf("allocation %ld fails: %ld block(s) never released\n",n,live-base); leaks++; }
    ares_destroy(ch); ares_library_cleanup(); if(used<n) break; }
  printf("%d leaking failure point(s)\n",leaks); return leaks?1:0; }
