/* replay: records built through the public API that ares_dns_write() serialises successfully but that do not parse back (or parse
 * back differently):
 *   1. HINFO with a TAB in the CPU string      -> write ok, parse ARES_EBADSTR (parser demands printable ASCII, writer does not)
 *   2. CAA with an empty tag                    -> write ok, parse fails (parser demands a non-empty tag)
 *   3. RCODE 16 (BADVERS) without an OPT RR     -> write ok, parses back as a different rcode (upper 8 bits live in OPT)
 *   4. URI with a control byte in the target    -> write ok, parse fails (parser demands a printable target)
 */
#include <ares.h>
#include <stdio.h>
#include <string.h>

static int check(const char *what, ares_dns_record_t *rec, int expect_rcode)
{
  unsigned char *buf = NULL; size_t len = 0; ares_dns_record_t *back = NULL; int bad = 0;
  ares_status_t ws = ares_dns_write(rec, &buf, &len), ps;
  if (ws != ARES_SUCCESS) { printf("%-40s write refused: %s (fine)\n", what, ares_strerror((int)ws)); return 0; }
  ps = ares_dns_parse(buf, len, 0, &back);
  if (ps != ARES_SUCCESS) { printf("%-40s VIOLATION: written (%zu bytes) but does not parse back: %s\n", what, len, ares_strerror((int)ps)); bad = 1; }
  else if (expect_rcode >= 0 && (int)ares_dns_record_get_rcode(back) != expect_rcode) { printf("%-40s VIOLATION: rcode %d written, %d parsed back\n", what, expect_rcode, (int)ares_dns_record_get_rcode(back)); bad = 1; }
  else printf("%-40s round trip ok\n", what);
  ares_free_string(buf); ares_dns_record_destroy(back);
  return bad;
}

int main(void)
{
  ares_dns_record_t *rec; ares_dns_rr_t *rr; int bad = 0;
  ares_library_init(ARES_LIB_INIT_ALL);

  ares_dns_record_create(&rec, 1, ARES_FLAG_QR, ARES_OPCODE_QUERY, ARES_RCODE_NOERROR);
  ares_dns_record_query_add(rec, "example.com", ARES_REC_TYPE_HINFO, ARES_CLASS_IN);
  ares_dns_record_rr_add(&rr, rec, ARES_SECTION_ANSWER, "example.com", ARES_REC_TYPE_HINFO, ARES_CLASS_IN, 60);
  ares_dns_rr_set_str(rr, ARES_RR_HINFO_CPU, "x86\t64"); ares_dns_rr_set_str(rr, ARES_RR_HINFO_OS, "linux");
  bad |= check("HINFO cpu with a TAB", rec, -1); ares_dns_record_destroy(rec);

  ares_dns_record_create(&rec, 2, ARES_FLAG_QR, ARES_OPCODE_QUERY, ARES_RCODE_NOERROR);
  ares_dns_record_query_add(rec, "example.com", ARES_REC_TYPE_CAA, ARES_CLASS_IN);
  ares_dns_record_rr_add(&rr, rec, ARES_SECTION_ANSWER, "example.com", ARES_REC_TYPE_CAA, ARES_CLASS_IN, 60);
  ares_dns_rr_set_u8(rr, ARES_RR_CAA_CRITICAL, 0); ares_dns_rr_set_str(rr, ARES_RR_CAA_TAG, "");
  ares_dns_rr_set_bin(rr, ARES_RR_CAA_VALUE, (const unsigned char *)"ca.example", 10);
  bad |= check("CAA with an empty tag", rec, -1); ares_dns_record_destroy(rec);

  ares_dns_record_create(&rec, 3, ARES_FLAG_QR, ARES_OPCODE_QUERY, ARES_RCODE_BADSIG /* 16 */);
  ares_dns_record_query_add(rec, "example.com", ARES_REC_TYPE_A, ARES_CLASS_IN);
  bad |= check("rcode 16 without an OPT RR", rec, 16); ares_dns_record_destroy(rec);

  /* 4. URI target with a control byte (reported in the fourth round; the target is not in character-string format) */
  ares_dns_record_create(&rec, 4, ARES_FLAG_QR, ARES_OPCODE_QUERY, ARES_RCODE_NOERROR);
  ares_dns_record_query_add(rec, "example.com", ARES_REC_TYPE_URI, ARES_CLASS_IN);
  ares_dns_record_rr_add(&rr, rec, ARES_SECTION_ANSWER, "example.com", ARES_REC_TYPE_URI, ARES_CLASS_IN, 60);
  ares_dns_rr_set_u16(rr, ARES_RR_URI_PRIORITY, 1); ares_dns_rr_set_u16(rr, ARES_RR_URI_WEIGHT, 1);
  ares_dns_rr_set_str(rr, ARES_RR_URI_TARGET, "http://exa\x01mple.com/");
  bad |= check("URI target with a control byte", rec, -1); ares_dns_record_destroy(rec);

  ares_library_cleanup();
  return bad;
}
