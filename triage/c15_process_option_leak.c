#include <ares.h>
#include <string.h>
int main(void){ ares_channel_t *ch; struct ares_options o; memset(&o,0,sizeof o); ares_library_init(ARES_LIB_INIT_ALL);
 o.resolvconf_path=(char*)"/verif/triage/c15_resolv.conf"; if(ares_init_options(&ch,&o,ARES_OPT_RESOLVCONF)!=ARES_SUCCESS) return 2; ares_destroy(ch); ares_library_cleanup(); return 0; }
