/* C20/C10: a UDP send that returns EWOULDBLOCK leaves the datagram in conn->out_buf; ares_conn_flush() then re-announces the socket
 * as read-only (write interest is only kept for TCP), so nothing flushes it until the query's timeout, when the retry sends both
 * copies.  Expected: the library asks for a write event and sends exactly one datagram when the socket becomes writable. */
#include "vs.h"
static int want_write=-1, datagrams=0, block_first=1, done=0;
static void state_cb(void*d, ares_socket_t s, int rd, int wr){ (void)d;(void)s;(void)rd; want_write=wr; }
static ares_ssize_t b_sendto(ares_socket_t s,const void*b,size_t l,int f,const struct sockaddr*a,ares_socklen_t al,void*u){
  if(block_first){ block_first=0; errno=EWOULDBLOCK; return -1; } datagrams++; return v_sendto(s,b,l,f,a,al,u); }
static void cb(void*arg, ares_status_t st, size_t to, const ares_dns_record_t*r){ (void)arg;(void)to;(void)r; done=1; printf("callback status=%d timeouts=%zu\n",st,to); }
int main(void){ ares_channel_t*ch; struct ares_options o; memset(&o,0,sizeof o); ares_library_init(ARES_LIB_INIT_ALL);
  o.tries=2; o.timeout=2000; o.qcache_max_ttl=0; o.flags=ARES_FLAG_NOSEARCH; o.sock_state_cb=state_cb;
  if(ares_init_options(&ch,&o,ARES_OPT_TRIES|ARES_OPT_TIMEOUTMS|ARES_OPT_QUERY_CACHE|ARES_OPT_FLAGS|ARES_OPT_SOCK_STATE_CB)!=ARES_SUCCESS) return 2;
  VS.asendto=b_sendto; ares_set_socket_functions_ex(ch,&VS,NULL); ares_set_servers_csv(ch,"127.0.0.1");
  ares_query_dnsrec(ch,"wb.example.com",ARES_CLASS_IN,ARES_REC_TYPE_A,cb,NULL,NULL);
  printf("after the blocked send the library asks for write events: %s\n", want_write==1?"yes":"NO");
  if(want_write==1){ ares_fd_events_t ev={100,ARES_FD_EVENT_WRITE}; ares_process_fds(ch,&ev,1,0); }
  for(int i=0;i<5&&!done;i++){ ares_fd_events_t ev={100,ARES_FD_EVENT_READ}; ares_process_fds(ch,&ev,1,0); }
  printf("datagrams on the wire: %d, answered without waiting for the timeout: %s\n",datagrams,done?"yes":"NO");
  int ok = want_write==1 && datagrams==1 && done; ares_destroy(ch); ares_library_cleanup(); return ok?0:1; }
