/* C14: hosts file with two lines sharing a hostname ("1.2.3.4 foo" / "5.6.7.8 foo bar"): the second line is merged into the
 * already registered entry; if the allocation for its iphash insertion fails, ares_hosts_file_add() destroys that registered entry
 * (refcnt 1 -> 0, freed) while iphash/hosthash still point at it: use after free / double free when the tables are destroyed.
 * Sweeps the failing allocation over a hosts-file lookup; run under valgrind (or watch for the crash). */
#include <ares.h>
#include <stdio.h>
#include <stdlib.h>
#include <string.h>
#include <netdb.h>
static long count=0, failat=0;
static void *m(size_t n){ count++; if(failat && count==failat) return NULL; return malloc(n); }
static void f(void*p){ free(p); }
static void *r(void*p,size_t n){ count++; if(failat && count==failat) return NULL; return realloc(p,n); }
static void hcb(void*arg,int st,int to,struct hostent*h){ (void)arg;(void)to;(void)h;(void)st; }
int main(int argc,char**argv){ long n; const char*hosts=argc>1?argv[1]:"/tmp/c14_hosts";
  FILE*fp=fopen(hosts,"w"); fputs("1.2.3.4 foo\n5.6.7.8 foo bar\n",fp); fclose(fp);
  for(n=1;n<400;n++){ ares_channel_t*ch=NULL; struct ares_options o; memset(&o,0,sizeof o);
    failat=0; ares_library_init_mem(ARES_LIB_INIT_ALL,m,f,r);
    o.hosts_path=(char*)hosts; o.lookups=(char*)"f"; o.resolvconf_path=(char*)"/dev/null";
    if(ares_init_options(&ch,&o,ARES_OPT_HOSTS_FILE|ARES_OPT_LOOKUPS|ARES_OPT_RESOLVCONF)!=ARES_SUCCESS){ ares_library_cleanup(); continue; }
    count=0; failat=n; ares_gethostbyname(ch,"foo",AF_INET,hcb,NULL); failat=0;
    long used=count; ares_destroy(ch); ares_library_cleanup(); if(used<n) break; }
  printf("swept %ld failure points without a crash\n",n); return 0; }
