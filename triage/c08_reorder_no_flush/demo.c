/* replay: "any server-list change ... empties the cache".  The list S1,S2 is replaced by S2,S1 (same servers, other order = other
 * preference): ares_servers_update() only notes a change when a server is created or removed, so the cache is kept and the answer obtained
 * under the old list is replayed. */
#include "mock.h"

#define NAME "flush.example.com"

static void responder(size_t idx, const ares_dns_record_t *req,
                      ares_dns_record_t *resp)
{
  (void)idx;
  (void)req;
  add_a(resp, ARES_SECTION_ANSWER, NAME, 600, "10.9.8.7");
}

typedef struct {
  int           done;
  ares_status_t status;
} result_t;

static void cb(void *arg, ares_status_t status, size_t timeouts,
               const ares_dns_record_t *dnsrec)
{
  result_t *res = arg;
  (void)timeouts;
  (void)dnsrec;
  res->done   = 1;
  res->status = status;
}

/* returns number of packets the request caused */
static size_t ask(ares_channel_t *channel, const ares_dns_record_t *req)
{
  size_t   before = total_packets();
  result_t r;
  memset(&r, 0, sizeof(r));
  ares_send_dnsrec(channel, req, cb, &r, NULL);
  run_until(channel, &r.done);
  if (r.status != ARES_SUCCESS) {
    die("request failed");
  }
  return total_packets() - before;
}

static void set_order(ares_channel_t *channel, int reversed)
{
  char csv[128];
  if (reversed) snprintf(csv, sizeof(csv), "127.0.0.1:%u,127.0.0.1:%u", (unsigned)g_mock[1].port, (unsigned)g_mock[0].port);
  else          snprintf(csv, sizeof(csv), "127.0.0.1:%u,127.0.0.1:%u", (unsigned)g_mock[0].port, (unsigned)g_mock[1].port);
  if (ares_set_servers_ports_csv(channel, csv) != ARES_SUCCESS) die("ares_set_servers_ports_csv");
}

int main(void)
{
  ares_channel_t    *channel;
  ares_dns_record_t *req;
  size_t             n;
  int                rc = 0;

  mock_start();
  mock_start();
  g_responder = responder;
  channel     = channel_create(3600, 0);
  set_order(channel, 0);
  req = make_request(NAME, ARES_REC_TYPE_A, ARES_FLAG_RD);
  n = ask(channel, req);
  printf("1. servers=S1,S2  first request : %zu packet(s)\n", n);
  n = ask(channel, req);
  printf("2. servers=S1,S2  repeat        : %zu packet(s)\n", n);
  if (n != 0) die("cache does not seem to be active");
  set_order(channel, 1);
  n = ask(channel, req);
  printf("3. servers=S2,S1  after reorder : %zu packet(s)\n", n);
  if (n == 0) { printf("VIOLATION: answer replayed from the cache although the server list changed (order)\n"); rc = 1; }
  ares_dns_record_destroy(req);
  ares_destroy(channel);
  ares_library_cleanup();
  if (rc == 0) printf("OK\n");
  return rc;
}
