/* C06: ares_send_query() -> ares_requeue_query() -> ares_send_query() recurse once per failed attempt: with tries large enough and
 * a socket open that always fails, the stack is exhausted (no definite status).  usage: c06_retry_recursion_depth <tries> */
#include <ares.h>
#include <stdio.h>
#include <string.h>
#include <errno.h>
#include <stdlib.h>
static ares_socket_t my_socket(int d,int t,int p,void*u){(void)d;(void)t;(void)p;(void)u;errno=EMFILE;return ARES_SOCKET_BAD;}
static int my_close(ares_socket_t s,void*u){(void)s;(void)u;return 0;}
static int my_setsockopt(ares_socket_t s, ares_socket_opt_t o, const void*v, ares_socklen_t l, void*u){return 0;}
static int my_connect(ares_socket_t s,const struct sockaddr*a,ares_socklen_t l,unsigned int f,void*u){errno=ECONNREFUSED;return -1;}
static ares_ssize_t my_recvfrom(ares_socket_t s,void*b,size_t l,int f,struct sockaddr*a,ares_socklen_t*al,void*u){errno=EAGAIN;return -1;}
static ares_ssize_t my_sendto(ares_socket_t s,const void*b,size_t l,int f,const struct sockaddr*a,ares_socklen_t al,void*u){errno=ECONNREFUSED;return -1;}
static int done=0, st=-1;
static void cb(void*a,ares_status_t s,size_t t,const ares_dns_record_t*r){done=1;st=s;}
int main(int argc,char**argv){
  ares_channel_t*c; struct ares_options o; memset(&o,0,sizeof(o));
  struct ares_socket_functions_ex f; memset(&f,0,sizeof(f));
  ares_library_init(ARES_LIB_INIT_ALL);
  o.tries=atoi(argv[1]); o.timeout=1000;
  if(ares_init_options(&c,&o,ARES_OPT_TRIES|ARES_OPT_TIMEOUTMS)) return 2;
  f.version=1; f.flags=0; f.asocket=my_socket; f.aclose=my_close; f.asetsockopt=my_setsockopt; f.aconnect=my_connect; f.arecvfrom=my_recvfrom; f.asendto=my_sendto;
  if(ares_set_socket_functions_ex(c,&f,NULL)) {puts("setfn fail");return 2;}
  ares_set_servers_csv(c,"127.0.0.1");
  ares_query_dnsrec(c,"a.example.com",ARES_CLASS_IN,ARES_REC_TYPE_A,cb,NULL,NULL);
  printf("done=%d status=%s\n",done,ares_strerror(st));
  ares_destroy(c); return 0;}
