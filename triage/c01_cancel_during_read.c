#include "vs.h"
static ares_channel_t*ch; static int n=0;
static void cb(void*arg, ares_status_t st, size_t to, const ares_dns_record_t*r){ n++; printf("callback %d status=%d -> calling ares_cancel()\n",n,st); fflush(stdout); ares_cancel(ch); }
int main(void){ struct ares_options o; memset(&o,0,sizeof o); ares_library_init(ARES_LIB_INIT_ALL);
 ares_init_options(&ch,&o,0); ares_set_socket_functions_ex(ch,&VS,NULL); ares_set_servers_csv(ch,"127.0.0.1");
 ares_query_dnsrec(ch,"example.com",ARES_CLASS_IN,ARES_REC_TYPE_A,cb,NULL,NULL);
 ares_process_fd(ch,100,ARES_SOCKET_BAD);
 printf("callbacks=%d\n",n); ares_destroy(ch); return 0; }
