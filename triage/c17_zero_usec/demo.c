/* Regression period: once a server has proven DNS cookie support, replies
 * without a cookie are ignored -- but only until the regression period
 * (120 s, counted from the first such reply) has passed.  After that the
 * client must start over and be able to use the server without cookies.
 *
 * Scenario (virtual time, virtual sockets):
 *   t=0      one query, answered with a server cookie  -> support proven
 *   t=10s    the server is "reconfigured": from now on every reply is a
 *            normal answer with an OPT RR but without COOKIE option
 *   t>=10s   the application keeps resolving: a new query every 15 s (each
 *            one is retried by the library, every attempt gets the cookie-less
 *            answer)
 * Expected: no cookie-less answer is accepted before t=130s, and the first
 * query sent at/after t=130s succeeds; afterwards no cookies are sent.
 */
#include "harness.h"

static const unsigned char SCOOKIE[8] = { 0xB1, 0xB2, 0xB3, 0xB4,
                                          0xB5, 0xB6, 0xB7, 0xB8 };

#define REGRESSION_MS 120000LL
#define GIVE_UP_MS    600000LL

int main(void)
{
  h_result_t    res;
  long long     t_start;
  long long     t_first_nocookie = -1;
  long long     t_accept         = -1;
  long long     t_last_query     = -1;
  int           answered;
  int           nquery = 0;
  int           active = 0;
  unsigned char c[64];
  size_t        clen;
  char          name[64];

  ares_library_init(ARES_LIB_INIT_ALL);
  h_channel_create(2, 2000, 0);
  t_start = h_now_ms;

  /* 1. prove cookie support */
  h_query("warmup.example.com", &res);
  if (h_nsent != 1) {
    printf("unexpected: %d packets for first query\n", h_nsent);
    return 3;
  }
  H_CHECK(h_sent_cookie(&h_sent[0], c, &clen, NULL) && clen == 8,
          "first request should carry an 8 byte client cookie");
  h_reply(0, ARES_RCODE_NOERROR, 0, SCOOKIE, sizeof(SCOOKIE));
  if (!res.done || res.status != ARES_SUCCESS) {
    printf("unexpected: warmup query failed (%d)\n", res.status);
    return 3;
  }
  answered = h_nsent;

  /* 2. server stops returning cookies at t=10s */
  h_advance_ms(10000);

  while (h_now_ms - t_start < GIVE_UP_MS && t_accept < 0) {
    int i;

    if (!active && (t_last_query < 0 || h_now_ms - t_last_query >= 15000)) {
      snprintf(name, sizeof(name), "q%d.example.com", nquery++);
      h_query(name, &res);
      active       = 1;
      t_last_query = h_now_ms;
    }

    /* answer everything the library sent, without cookie */
    for (i = answered; i < h_nsent; i++) {
      if (t_first_nocookie < 0) {
        t_first_nocookie = h_now_ms;
      }
      h_reply(i, ARES_RCODE_NOERROR, 0, NULL, 0);
      if (active && res.done && res.status == ARES_SUCCESS) {
        t_accept = h_now_ms;
        break;
      }
    }
    answered = h_nsent;

    if (active && res.done) {
      active = 0;
    }
    if (t_accept >= 0) {
      break;
    }
    h_advance_ms(1000);
  }

  printf("first cookie-less reply at t=%llds\n",
         (t_first_nocookie - t_start) / 1000);
  if (t_accept >= 0) {
    printf("first cookie-less reply accepted at t=%llds (%lld ms after the "
           "first one), %d queries issued\n",
           (t_accept - t_start) / 1000, t_accept - t_first_nocookie, nquery);
    H_CHECK(t_accept - t_first_nocookie >= REGRESSION_MS,
            "cookie-less reply accepted only %lld ms after support was lost, "
            "inside the regression period", t_accept - t_first_nocookie);
    H_CHECK(t_accept - t_first_nocookie <= REGRESSION_MS + 20000,
            "server only became usable %lld ms after support was lost, the "
            "regression period is %lld ms", t_accept - t_first_nocookie,
            REGRESSION_MS);

    /* 3. server without cookie support is now used without cookies */
    h_advance_ms(1000);
    answered = h_nsent;
    h_query("after.example.com", &res);
    if (h_nsent == answered + 1) {
      H_CHECK(!h_sent_cookie(&h_sent[answered], c, &clen, NULL),
              "cookie still sent to a server known not to support them");
      h_reply(answered, ARES_RCODE_NOERROR, 0, NULL, 0);
    }
    H_CHECK(res.done && res.status == ARES_SUCCESS,
            "query after the regression period failed");
  } else {
    H_CHECK(0, "server that stopped returning cookies at t=10s is still "
               "unusable at t=%llds although the regression period (120 s) "
               "has long passed: %d queries in a row timed out",
            (h_now_ms - t_start) / 1000, nquery);
  }

  ares_destroy(h_channel);
  ares_library_cleanup();

  if (h_failures) {
    printf("FAIL: %d violation(s)\n", h_failures);
    return 1;
  }
  printf("PASS\n");
  return 0;
}
