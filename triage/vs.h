/* tiny in-process virtual socket layer for replays */
#include <ares.h>
#include <stdio.h>
#include <string.h>
#include <stdlib.h>
#include <errno.h>
#include <netinet/in.h>
#include <arpa/inet.h>
static unsigned char lastq[512]; static size_t lastq_len=0; static int have_reply=0; static unsigned char reply[512]; static size_t reply_len=0; static int nsock=100; static int sends=0;
static ares_socket_t v_socket(int d,int t,int p,void*u){ return nsock++; }
static int v_close(ares_socket_t s,void*u){ printf("  [vs] close(%d)\n",(int)s); return 0; }
static int v_setsockopt(ares_socket_t s, ares_socket_opt_t o, const void*v, ares_socklen_t l, void*u){ return 0; }
static int v_connect(ares_socket_t s,const struct sockaddr*a,ares_socklen_t l,unsigned int f,void*u){ return 0; }
static void make_reply(void){ /* copy header+question, set QR|RA, ancount=1, append A rr with ttl 300 */
  memcpy(reply,lastq,lastq_len); reply[2]=0x81; reply[3]=0x80; reply[6]=0; reply[7]=1; /* arcount keep (OPT) -> drop additional */ reply[10]=0; reply[11]=0;
  /* find end of question */ size_t i=12; while(reply[i]) i+=reply[i]+1; i+=1+4; size_t n=i;
  unsigned char rr[]={0xc0,0x0c,0,1,0,1,0,0,0x01,0x2c,0,4,1,2,3,4}; memcpy(reply+n,rr,sizeof rr); reply_len=n+sizeof rr; have_reply=1; }
static ares_ssize_t v_sendto(ares_socket_t s,const void*b,size_t l,int f,const struct sockaddr*a,ares_socklen_t al,void*u){ sends++; memcpy(lastq,b,l); lastq_len=l; make_reply(); return (ares_ssize_t)l; }
static ares_ssize_t v_recvfrom(ares_socket_t s,void*b,size_t l,int f,struct sockaddr*a,ares_socklen_t*al,void*u){ if(!have_reply){ errno=EWOULDBLOCK; return -1;} have_reply=0; if(a&&al){ struct sockaddr_in*sin=(struct sockaddr_in*)a; memset(sin,0,sizeof *sin); sin->sin_family=AF_INET; sin->sin_addr.s_addr=htonl(0x7f000001); sin->sin_port=htons(53); *al=sizeof *sin;} memcpy(b,reply,reply_len); return (ares_ssize_t)reply_len; }
static int v_getsockname(ares_socket_t s,struct sockaddr*a,ares_socklen_t*al,void*u){ struct sockaddr_in*sin=(struct sockaddr_in*)a; memset(sin,0,sizeof *sin); sin->sin_family=AF_INET; sin->sin_addr.s_addr=htonl(0x7f000001); *al=sizeof *sin; return 0; }
static struct ares_socket_functions_ex VS={1,ARES_SOCKFUNC_FLAG_NONBLOCKING,v_socket,v_close,v_setsockopt,v_connect,v_recvfrom,v_sendto,v_getsockname,NULL,NULL,NULL};
