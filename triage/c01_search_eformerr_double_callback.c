#include <ares.h>
#include <stdio.h>
#include <string.h>
static int calls=0;
static void cb(void *arg, int status, int timeouts, unsigned char *abuf, int alen){ calls++; printf("callback #%d status=%d (%s)\n", calls, status, ares_strerror(status)); fflush(stdout); }
int main(void){
  ares_channel_t *ch; struct ares_options o; memset(&o,0,sizeof o);
  ares_library_init(ARES_LIB_INIT_ALL);
  char *doms[1]={(char*)"example.com"}; o.domains=doms; o.ndomains=1;
  if(ares_init_options(&ch,&o,ARES_OPT_DOMAINS)!=ARES_SUCCESS) return 2;
  char name[1024]; name[0]=0;
  for(int i=0;i<62;i++) strcat(name,"\\065");
  printf("text len=%zu\n", strlen(name)); fflush(stdout);
  ares_search(ch, name, 1, 1, cb, NULL);
  printf("after ares_search: callbacks=%d\n", calls); fflush(stdout);
  ares_destroy(ch); ares_library_cleanup(); return 0; }
