/* replay: a response COOKIE option of 9..15 octets (client cookie + a "server cookie" of 1..7 octets) is not a valid cookie
 * (RFC 7873: server cookie 8..32 octets).  Before the fix such a response was accepted, proved "cookie support" for the server and the
 * 3-octet server cookie was echoed in the next request. */
#include "harness.h"

int main(void)
{
  h_result_t    res;
  unsigned char c[64];
  size_t        clen;
  static const unsigned char SHORT[3] = { 0xA1, 0xA2, 0xA3 };
  int           before;

  ares_library_init(ARES_LIB_INIT_ALL);
  h_channel_create(1, 2000, 0);
  h_query("first.example.com", &res);
  if (h_nsent != 1) { printf("unexpected: %d packets\n", h_nsent); return 3; }
  h_reply(0, ARES_RCODE_NOERROR, 0, SHORT, sizeof(SHORT));
  H_CHECK(!(res.done && res.status == ARES_SUCCESS), "a response whose COOKIE option is 11 octets long was delivered to the callback");
  h_advance_ms(3000);   /* let the single try time out */
  before = h_nsent;
  h_query("second.example.com", &res);
  if (h_nsent > before && h_sent_cookie(&h_sent[before], c, &clen, NULL)) {
    H_CHECK(clen == 8, "the next request echoes a %u-octet COOKIE option: the malformed 3-octet server cookie was stored", (unsigned)clen);
  }
  ares_destroy(h_channel);
  ares_library_cleanup();
  if (h_failures) { printf("FAIL: %d violation(s)\n", h_failures); return 1; }
  printf("PASS\n");
  return 0;
}
