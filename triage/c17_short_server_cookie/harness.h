/* Tiny deterministic test harness for c-ares DNS cookie behaviour.
 *
 *  - Virtual sockets: all socket I/O of the channel goes through
 *    ares_set_socket_functions_ex() into an in-memory mock, nothing touches
 *    the network.  Every datagram / TCP write of the library is logged.
 *  - Virtual time: the program defines clock_gettime() itself, which takes
 *    precedence over libc's for the calls made by libcares.so, so that the
 *    cookie timers can be crossed instantly.
 *  - Only the public API (ares.h / ares_dns_record.h) is used.
 */
#ifndef COOKIE_HARNESS_H
#define COOKIE_HARNESS_H

#ifndef _GNU_SOURCE
#  define _GNU_SOURCE
#endif
#include <stdio.h>
#include <stdlib.h>
#include <string.h>
#include <errno.h>
#include <time.h>
#include <sys/types.h>
#include <sys/socket.h>
#include <netinet/in.h>
#include <arpa/inet.h>
#include <ares.h>

/* ------------------------------------------------------------------ time */
static long long h_now_ms = 5000000; /* arbitrary, far from zero */

int clock_gettime(clockid_t id, struct timespec *ts)
{
  (void)id;
  ts->tv_sec  = (time_t)(h_now_ms / 1000);
  /* keep the sub-millisecond part non-zero so tv_usec is never 0 */
  ts->tv_nsec = (long)((h_now_ms % 1000) * 1000000L + 321000L);
  return 0;
}

/* --------------------------------------------------------------- sockets */
#define H_MAXSOCK 256
#define H_MAXPKT  1024
#define H_MAXSENT 512
#define H_INBOX   8

typedef struct {
  int           open;
  int           is_tcp;
  int           connected;
  int           write_signalled;
  unsigned int  src_ip; /* host order, latched at connect() like the kernel */
  unsigned char inbox[H_INBOX][H_MAXPKT];
  size_t        inbox_len[H_INBOX];
  int           in_head;
  int           in_tail;
} h_sock_t;

typedef struct {
  int           fd;
  int           is_tcp;
  unsigned int  src_ip;
  long long     time_ms;
  size_t        len; /* DNS message only (TCP length prefix stripped) */
  unsigned char data[H_MAXPKT];
} h_sent_t;

#define H_FD_BASE 1000
static h_sock_t        h_socks[H_MAXSOCK];
static int             h_nsocks   = 0;
static h_sent_t        h_sent[H_MAXSENT];
static int             h_nsent    = 0;
static unsigned int    h_src_ip   = 0x0A000001; /* 10.0.0.1 */
static unsigned int    h_srv_ip   = 0x0A000035; /* 10.0.0.53 */
static int             h_tcp_opened = 0;
static int             h_udp_opened = 0;
static ares_channel_t *h_channel  = NULL;

static h_sock_t *h_get(ares_socket_t fd)
{
  int idx = (int)fd - H_FD_BASE;
  if (idx < 0 || idx >= h_nsocks || !h_socks[idx].open) {
    return NULL;
  }
  return &h_socks[idx];
}

static ares_socket_t h_asocket(int domain, int type, int protocol, void *ud)
{
  h_sock_t *s;
  (void)protocol;
  (void)ud;
  if (domain != AF_INET || h_nsocks >= H_MAXSOCK) {
    errno = EAFNOSUPPORT;
    return ARES_SOCKET_BAD;
  }
  s = &h_socks[h_nsocks];
  memset(s, 0, sizeof(*s));
  s->open   = 1;
  s->is_tcp = (type == SOCK_STREAM);
  if (s->is_tcp) {
    h_tcp_opened++;
  } else {
    h_udp_opened++;
  }
  return (ares_socket_t)(H_FD_BASE + h_nsocks++);
}

static int h_aclose(ares_socket_t fd, void *ud)
{
  h_sock_t *s = h_get(fd);
  (void)ud;
  if (s == NULL) {
    errno = EBADF;
    return -1;
  }
  s->open = 0;
  return 0;
}

static int h_asetsockopt(ares_socket_t fd, ares_socket_opt_t opt,
                         const void *val, ares_socklen_t val_size, void *ud)
{
  (void)fd;
  (void)val;
  (void)val_size;
  (void)ud;
  if (opt == ARES_SOCKET_OPT_TCP_FASTOPEN) {
    errno = ENOSYS; /* keep TCP simple: no fast open */
    return -1;
  }
  return 0;
}

static int h_aconnect(ares_socket_t fd, const struct sockaddr *sa,
                      ares_socklen_t salen, unsigned int flags, void *ud)
{
  h_sock_t *s = h_get(fd);
  (void)sa;
  (void)salen;
  (void)flags;
  (void)ud;
  if (s == NULL) {
    errno = EBADF;
    return -1;
  }
  /* Like a real kernel: the source address is chosen by routing at the time
   * of connect(), before that the socket has no local address */
  s->connected = 1;
  s->src_ip    = h_src_ip;
  return 0;
}

static ares_ssize_t h_arecvfrom(ares_socket_t fd, void *buf, size_t len,
                                int flags, struct sockaddr *from,
                                ares_socklen_t *from_len, void *ud)
{
  h_sock_t *s = h_get(fd);
  size_t    n;
  (void)flags;
  (void)ud;
  if (s == NULL) {
    errno = EBADF;
    return -1;
  }
  if (s->in_head == s->in_tail) {
    errno = EWOULDBLOCK;
    return -1;
  }
  n = s->inbox_len[s->in_head % H_INBOX];
  if (n > len) {
    n = len;
  }
  memcpy(buf, s->inbox[s->in_head % H_INBOX], n);
  s->in_head++;
  if (from != NULL && from_len != NULL &&
      *from_len >= (ares_socklen_t)sizeof(struct sockaddr_in)) {
    struct sockaddr_in sin;
    memset(&sin, 0, sizeof(sin));
    sin.sin_family      = AF_INET;
    sin.sin_port        = htons(53);
    sin.sin_addr.s_addr = htonl(h_srv_ip);
    memcpy(from, &sin, sizeof(sin));
    *from_len = sizeof(sin);
  }
  return (ares_ssize_t)n;
}

static ares_ssize_t h_asendto(ares_socket_t fd, const void *buf, size_t len,
                              int flags, const struct sockaddr *to,
                              ares_socklen_t tolen, void *ud)
{
  h_sock_t            *s = h_get(fd);
  const unsigned char *p = buf;
  size_t               l = len;
  (void)flags;
  (void)to;
  (void)tolen;
  (void)ud;
  if (s == NULL) {
    errno = EBADF;
    return -1;
  }
  if (h_nsent >= H_MAXSENT || len > H_MAXPKT) {
    fprintf(stderr, "harness: too many / too large packets sent\n");
    exit(3);
  }
  if (s->is_tcp) {
    /* the library writes one length-prefixed message at a time here */
    if (l < 2) {
      errno = EINVAL;
      return -1;
    }
    p += 2;
    l -= 2;
  }
  h_sent[h_nsent].fd      = (int)fd;
  h_sent[h_nsent].is_tcp  = s->is_tcp;
  h_sent[h_nsent].src_ip  = s->src_ip;
  h_sent[h_nsent].time_ms = h_now_ms;
  h_sent[h_nsent].len     = l;
  memcpy(h_sent[h_nsent].data, p, l);
  h_nsent++;
  return (ares_ssize_t)len;
}

static int h_agetsockname(ares_socket_t fd, struct sockaddr *sa,
                          ares_socklen_t *salen, void *ud)
{
  h_sock_t          *s = h_get(fd);
  struct sockaddr_in sin;
  (void)ud;
  if (s == NULL || *salen < (ares_socklen_t)sizeof(sin)) {
    errno = EBADF;
    return -1;
  }
  memset(&sin, 0, sizeof(sin));
  sin.sin_family = AF_INET;
  if (s->connected) {
    sin.sin_port        = htons((unsigned short)(40000 + (int)fd));
    sin.sin_addr.s_addr = htonl(s->src_ip);
  } /* else: unbound socket, 0.0.0.0:0 exactly like getsockname(2) */
  memcpy(sa, &sin, sizeof(sin));
  *salen = sizeof(sin);
  return 0;
}

static const struct ares_socket_functions_ex h_funcs = {
  1,
  ARES_SOCKFUNC_FLAG_NONBLOCKING,
  h_asocket,
  h_aclose,
  h_asetsockopt,
  h_aconnect,
  h_arecvfrom,
  h_asendto,
  h_agetsockname,
  NULL, /* abind */
  NULL, /* aif_nametoindex */
  NULL  /* aif_indextoname */
};

/* ------------------------------------------------------------ channel */
static void h_die(const char *what, int status)
{
  fprintf(stderr, "harness: %s failed: %s\n", what, ares_strerror(status));
  exit(3);
}

static ares_channel_t *h_channel_create(int tries, int timeout_ms,
                                        int udp_max_queries)
{
  struct ares_options opts;
  int                 optmask = 0;
  int                 rc;
  ares_channel_t     *ch = NULL;

  memset(&opts, 0, sizeof(opts));
  opts.flags            = ARES_FLAG_EDNS;
  optmask              |= ARES_OPT_FLAGS;
  opts.tries            = tries;
  optmask              |= ARES_OPT_TRIES;
  opts.timeout          = timeout_ms;
  optmask              |= ARES_OPT_TIMEOUTMS;
  opts.maxtimeout       = timeout_ms;
  optmask              |= ARES_OPT_MAXTIMEOUTMS;
  opts.qcache_max_ttl   = 0; /* no query cache */
  optmask              |= ARES_OPT_QUERY_CACHE;
  opts.udp_max_queries  = udp_max_queries;
  optmask              |= ARES_OPT_UDP_MAX_QUERIES;

  rc = ares_init_options(&ch, &opts, optmask);
  if (rc != ARES_SUCCESS) {
    h_die("ares_init_options", rc);
  }
  rc = ares_set_socket_functions_ex(ch, &h_funcs, NULL);
  if (rc != ARES_SUCCESS) {
    h_die("ares_set_socket_functions_ex", rc);
  }
  rc = ares_set_servers_csv(ch, "10.0.0.53");
  if (rc != ARES_SUCCESS) {
    h_die("ares_set_servers_csv", rc);
  }
  h_channel = ch;
  return ch;
}

/* Signal writability once for every TCP socket that hasn't had it yet (this
 * is how the library learns that connect() completed) and run the timeout
 * processing */
static void h_pump(void)
{
  int i;
  for (i = 0; i < h_nsocks; i++) {
    if (h_socks[i].open && h_socks[i].is_tcp && !h_socks[i].write_signalled) {
      h_socks[i].write_signalled = 1;
      ares_process_fd(h_channel, ARES_SOCKET_BAD,
                      (ares_socket_t)(H_FD_BASE + i));
    }
  }
  ares_process_fd(h_channel, ARES_SOCKET_BAD, ARES_SOCKET_BAD);
}

static void h_advance_ms(long long ms)
{
  h_now_ms += ms;
  h_pump();
}

/* Hand a message to the library as if it arrived on fd */
static void h_deliver(int fd, const unsigned char *msg, size_t len)
{
  h_sock_t *s = h_get((ares_socket_t)fd);
  size_t    off = 0;
  int       slot;
  if (s == NULL) {
    return; /* the library already closed it, a real packet would be lost */
  }
  slot = s->in_tail % H_INBOX;
  if (s->is_tcp) {
    s->inbox[slot][0] = (unsigned char)(len >> 8);
    s->inbox[slot][1] = (unsigned char)(len & 0xFF);
    off               = 2;
  }
  memcpy(s->inbox[slot] + off, msg, len);
  s->inbox_len[slot] = len + off;
  s->in_tail++;
  ares_process_fd(h_channel, (ares_socket_t)fd, ARES_SOCKET_BAD);
  h_pump();
}

/* ------------------------------------------------------------ DNS helpers */
static const ares_dns_rr_t *h_find_opt(const ares_dns_record_t *rec)
{
  size_t i;
  for (i = 0; i < ares_dns_record_rr_cnt(rec, ARES_SECTION_ADDITIONAL); i++) {
    const ares_dns_rr_t *rr =
      ares_dns_record_rr_get_const(rec, ARES_SECTION_ADDITIONAL, i);
    if (ares_dns_rr_get_type(rr) == ARES_REC_TYPE_OPT) {
      return rr;
    }
  }
  return NULL;
}

/* Extracts the COOKIE option of a sent message.  Returns 1 if the message has
 * one (copied to cookie/cookie_len), 0 if not, and has_opt tells whether there
 * was an OPT RR at all */
static int h_sent_cookie(const h_sent_t *pkt, unsigned char *cookie,
                         size_t *cookie_len, int *has_opt)
{
  ares_dns_record_t   *rec = NULL;
  const ares_dns_rr_t *opt;
  const unsigned char *val = NULL;
  size_t               len = 0;
  int                  rv  = 0;

  *cookie_len = 0;
  if (has_opt) {
    *has_opt = 0;
  }
  if (ares_dns_parse(pkt->data, pkt->len, 0, &rec) != ARES_SUCCESS) {
    fprintf(stderr, "harness: library sent an unparseable message\n");
    exit(3);
  }
  opt = h_find_opt(rec);
  if (opt != NULL) {
    if (has_opt) {
      *has_opt = 1;
    }
    if (ares_dns_rr_get_opt_byid(opt, ARES_RR_OPT_OPTIONS,
                                 ARES_OPT_PARAM_COOKIE, &val, &len)) {
      if (len > 64) {
        len = 64;
      }
      memcpy(cookie, val, len);
      *cookie_len = len;
      rv          = 1;
    }
  }
  ares_dns_record_destroy(rec);
  return rv;
}

#define H_REPLY_TC     0x1 /* set the TC bit, no answer */
#define H_REPLY_NO_OPT 0x2 /* don't include an OPT RR at all */

/* Build a reply to the sent message `req`.  If cookie != NULL it is placed
 * verbatim in a COOKIE option (caller assembles client+server part). */
static size_t h_build_reply(const h_sent_t *req, ares_dns_rcode_t rcode,
                            unsigned int rflags, const unsigned char *cookie,
                            size_t cookie_len, unsigned char *out)
{
  ares_dns_record_t  *q = NULL;
  ares_dns_record_t  *r = NULL;
  ares_dns_rr_t      *rr;
  const char         *name = NULL;
  ares_dns_rec_type_t qtype;
  ares_dns_class_t    qclass;
  unsigned short      flags = ARES_FLAG_QR | ARES_FLAG_AA | ARES_FLAG_RD;
  unsigned char      *buf   = NULL;
  size_t              len   = 0;
  struct in_addr      a;
  int                 rc;

  if (ares_dns_parse(req->data, req->len, 0, &q) != ARES_SUCCESS ||
      ares_dns_record_query_get(q, 0, &name, &qtype, &qclass) != ARES_SUCCESS) {
    fprintf(stderr, "harness: cannot parse request\n");
    exit(3);
  }
  if (rflags & H_REPLY_TC) {
    flags |= ARES_FLAG_TC;
  }
  rc = ares_dns_record_create(&r, ares_dns_record_get_id(q), flags,
                              ARES_OPCODE_QUERY, rcode);
  if (rc == ARES_SUCCESS) {
    rc = ares_dns_record_query_add(r, name, qtype, qclass);
  }
  if (rc == ARES_SUCCESS && !(rflags & H_REPLY_TC) &&
      rcode == ARES_RCODE_NOERROR) {
    rc = ares_dns_record_rr_add(&rr, r, ARES_SECTION_ANSWER, name,
                                ARES_REC_TYPE_A, ARES_CLASS_IN, 60);
    if (rc == ARES_SUCCESS) {
      a.s_addr = htonl(0x01020304);
      rc       = ares_dns_rr_set_addr(rr, ARES_RR_A_ADDR, &a);
    }
  }
  if (rc == ARES_SUCCESS && !(rflags & H_REPLY_NO_OPT)) {
    rc = ares_dns_record_rr_add(&rr, r, ARES_SECTION_ADDITIONAL, "",
                                ARES_REC_TYPE_OPT, ARES_CLASS_IN, 0);
    if (rc == ARES_SUCCESS) {
      rc = ares_dns_rr_set_u16(rr, ARES_RR_OPT_UDP_SIZE, 1232);
    }
    if (rc == ARES_SUCCESS) {
      rc = ares_dns_rr_set_u8(rr, ARES_RR_OPT_VERSION, 0);
    }
    if (rc == ARES_SUCCESS) {
      rc = ares_dns_rr_set_u16(rr, ARES_RR_OPT_FLAGS, 0);
    }
    if (rc == ARES_SUCCESS && cookie != NULL) {
      rc = ares_dns_rr_set_opt(rr, ARES_RR_OPT_OPTIONS, ARES_OPT_PARAM_COOKIE,
                               cookie, cookie_len);
    }
  }
  if (rc == ARES_SUCCESS) {
    rc = ares_dns_write(r, &buf, &len);
  }
  if (rc != ARES_SUCCESS || len > H_MAXPKT - 2) {
    h_die("building reply", rc);
  }
  memcpy(out, buf, len);
  ares_free_string(buf);
  ares_dns_record_destroy(q);
  ares_dns_record_destroy(r);
  return len;
}

/* Reply to sent packet `idx`: echo the client cookie it carried followed by
 * server cookie `scookie` (scookie == NULL: no COOKIE option in the reply) */
static void h_reply(int idx, ares_dns_rcode_t rcode, unsigned int rflags,
                    const unsigned char *scookie, size_t scookie_len)
{
  unsigned char out[H_MAXPKT];
  unsigned char reqc[64];
  unsigned char c[64];
  size_t        reqc_len;
  size_t        len;
  const h_sent_t *req = &h_sent[idx];

  h_sent_cookie(req, reqc, &reqc_len, NULL);
  if (scookie != NULL && reqc_len >= 8) {
    memcpy(c, reqc, 8);
    memcpy(c + 8, scookie, scookie_len);
    len = h_build_reply(req, rcode, rflags, c, 8 + scookie_len, out);
  } else {
    len = h_build_reply(req, rcode, rflags, NULL, 0, out);
  }
  h_deliver(req->fd, out, len);
}

/* --------------------------------------------------------------- queries */
typedef struct {
  int done;
  int status;
  int timeouts;
} h_result_t;

static void h_query_cb(void *arg, ares_status_t status, size_t timeouts,
                       const ares_dns_record_t *dnsrec)
{
  h_result_t *r = arg;
  (void)dnsrec;
  r->done     = 1;
  r->status   = (int)status;
  r->timeouts = (int)timeouts;
}

static void h_query(const char *name, h_result_t *res)
{
  int rc;
  memset(res, 0, sizeof(*res));
  rc = ares_query_dnsrec(h_channel, name, ARES_CLASS_IN, ARES_REC_TYPE_A,
                         h_query_cb, res, NULL);
  if (rc != ARES_SUCCESS) {
    h_die("ares_query_dnsrec", rc);
  }
  h_pump();
}

static void h_hex(const char *label, const unsigned char *p, size_t n)
{
  size_t i;
  printf("%s", label);
  for (i = 0; i < n; i++) {
    printf("%02x", p[i]);
  }
  printf("\n");
}

static int h_failures = 0;
#define H_CHECK(cond, ...)            \
  do {                                \
    if (!(cond)) {                    \
      printf("VIOLATION: ");          \
      printf(__VA_ARGS__);            \
      printf("\n");                   \
      h_failures++;                   \
    }                                 \
  } while (0)

#endif
