#include "vs.h"
#include <unistd.h>
static int n=0;
static void cb(void*arg, ares_status_t st, size_t to, const ares_dns_record_t*r){ n++; if(r && ares_dns_record_rr_cnt(r,ARES_SECTION_ANSWER)){ const ares_dns_rr_t*rr=ares_dns_record_rr_get_const(r,ARES_SECTION_ANSWER,0); printf("callback %d: status=%d ttl via ares_dns_rr_get_ttl=%u (transmissions so far=%d)\n",n,st,ares_dns_rr_get_ttl(rr),sends);} else printf("callback %d status=%d\n",n,st); }
int main(void){ ares_channel_t*ch; struct ares_options o; memset(&o,0,sizeof o); ares_library_init(ARES_LIB_INIT_ALL);
 o.flags=ARES_FLAG_STAYOPEN; ares_init_options(&ch,&o,ARES_OPT_FLAGS); ares_set_socket_functions_ex(ch,&VS,NULL); ares_set_servers_csv(ch,"127.0.0.1");
 ares_query_dnsrec(ch,"example.com",ARES_CLASS_IN,ARES_REC_TYPE_A,cb,NULL,NULL);
 ares_process_fd(ch,100,ARES_SOCKET_BAD);
 sleep(3);
 ares_query_dnsrec(ch,"example.com",ARES_CLASS_IN,ARES_REC_TYPE_A,cb,NULL,NULL);
 printf("total transmissions=%d (second answered from cache if 1)\n",sends);
 ares_destroy(ch); return 0; }
