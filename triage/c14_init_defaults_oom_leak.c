/* C14: one failed allocation while the default server (127.0.0.1) is added in init_by_defaults leaks the temporary
 * server-config list: ares_sconfig_append() creates *sconfig, then fails to insert, and the caller jumps to its error
 * exit without destroying it.  For each n the n-th allocation fails; after a failed ares_init_options() no block may
 * stay allocated. */
#include <ares.h>
#include <stdio.h>
#include <stdlib.h>
#include <string.h>
static long live=0, count=0, failat=0;
static void *m(size_t n){ count++; if(failat && count==failat) return NULL; void*p=malloc(n); if(p) live++; return p; }
static void f(void*p){ if(p){ live--; free(p);} }
static void *r(void*p,size_t n){ count++; if(failat && count==failat) return NULL; if(!p){ void*q=malloc(n); if(q) live++; return q;} return realloc(p,n); }
int main(void){ int leaks=0; long n;
  for(n=1;n<400;n++){ ares_channel_t*ch=NULL; struct ares_options o; int rc; memset(&o,0,sizeof o);
    live=0; count=0; failat=0; ares_library_init_mem(ARES_LIB_INIT_ALL,m,f,r); long base=live;
    o.resolvconf_path=(char*)"/dev/null"; o.lookups=(char*)"b"; count=0; failat=n;
    rc=ares_init_options(&ch,&o,ARES_OPT_RESOLVCONF|ARES_OPT_LOOKUPS); failat=0;
    if(rc==ARES_SUCCESS){ ares_destroy(ch); if(count<n){ ares_library_cleanup(); break; } }
    else if(live!=base){ printf("n=%ld: ares_init_options failed (%s) and left %ld block(s) allocated\n",n,ares_strerror(rc),live-base); leaks++; }
    ares_library_cleanup(); }
  printf("%d leaking failure point(s)\n",leaks); return leaks?1:0; }
