/* C08: a NOERROR/NODATA answer whose authority SOA has TTL 1 / MINIMUM 1 and whose additional section carries an A record with TTL 600
 * (e.g. glue) is cached for 600 s: calc_minttl skips the SOA outside the answer section and the SOA fallback is taken only when no other TTL was found.
 * identical query goes to the network again (sends == 2). */
#include "vs.h"
#include <unistd.h>
static int done=0;
static void cb(void*arg, ares_status_t st, size_t to, const ares_dns_record_t*r){ (void)arg;(void)to;(void)r; done++; printf("callback %d status=%d (%s)\n",done,st,ares_strerror(st)); }
static ares_ssize_t n_sendto(ares_socket_t s,const void*b,size_t l,int f,const struct sockaddr*a,ares_socklen_t al,void*u){
  (void)s;(void)f;(void)a;(void)al;(void)u; sends++; memcpy(lastq,b,l); lastq_len=l;
  memcpy(reply,lastq,lastq_len); reply[2]=0x81; reply[3]=0x80; reply[6]=0; reply[7]=0; reply[8]=0; reply[9]=1; reply[10]=0; reply[11]=1;
  size_t i=12; while(reply[i]) i+=reply[i]+1; i+=1+4;
  /* authority: example.com SOA ttl=1 mname=ns. rname=h. serial.. minimum=1 */
  unsigned char rr[]={0xc0,0x0c,0,6,0,1,0,0,0,1,0,26, 2,'n','s',0, 1,'h',0, 0,0,0,1, 0,0,0,10, 0,0,0,10, 0,0,0,10, 0,0,0,1};
  rr[11]=(unsigned char)(sizeof rr-12); memcpy(reply+i,rr,sizeof rr); i+=sizeof rr; { unsigned char ar[]={2,(unsigned char)0x6e,(unsigned char)0x73,0xc0,0x0c,0,1,0,1,0,0,2,0x58,0,4,192,0,2,1}; memcpy(reply+i,ar,sizeof ar); i+=sizeof ar; } reply_len=i; have_reply=1; return (ares_ssize_t)l; }
int main(void){ ares_channel_t*ch; struct ares_options o; memset(&o,0,sizeof o); ares_library_init(ARES_LIB_INIT_ALL);
  o.tries=1; o.timeout=500; o.qcache_max_ttl=3600; o.flags=ARES_FLAG_NOSEARCH;
  if(ares_init_options(&ch,&o,ARES_OPT_TRIES|ARES_OPT_TIMEOUTMS|ARES_OPT_QUERY_CACHE|ARES_OPT_FLAGS)!=ARES_SUCCESS) return 2;
  VS.asendto=n_sendto; ares_set_socket_functions_ex(ch,&VS,NULL); ares_set_servers_csv(ch,"127.0.0.1");
  ares_query_dnsrec(ch,"example.com",ARES_CLASS_IN,ARES_REC_TYPE_AAAA,cb,NULL,NULL);
  for(int i=0;i<5&&done<1;i++){ ares_fd_events_t ev={100,ARES_FD_EVENT_READ}; ares_process_fds(ch,&ev,1,0); }
  sleep(3);
  ares_query_dnsrec(ch,"example.com",ARES_CLASS_IN,ARES_REC_TYPE_AAAA,cb,NULL,NULL);
  for(int i=0;i<5&&done<2;i++){ ares_fd_events_t ev={100,ARES_FD_EVENT_READ}; ares_process_fds(ch,&ev,1,0); }
  printf("transmissions=%d (%s)\n",sends, sends==2?"second query went to the network":"second query answered from cache 3 s after a TTL-1 negative answer");
  ares_destroy(ch); ares_library_cleanup(); return sends==2?0:1; }
