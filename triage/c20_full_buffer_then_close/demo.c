/* replay (unchanged library): a TCP read that returns exactly the 65535 bytes offered makes read_conn_packets() read again in the same
 * pass; when that second read reports the peer's close, handle_conn_error() destroys the input buffer before read_answers() has seen
 * the bytes already received.  Here the server sends one answer whose frame is exactly 65535 bytes and closes: the complete answer is
 * thrown away and the query is sent again on a second connection.  (process_read() carries a TODO describing exactly this.) */
#include "vnet.h"

static unsigned char big[70000];
static size_t        big_len;

static void server(vn_sock_t *s, const unsigned char *msg, size_t len)
{
  ares_dns_record_t *q = NULL, *r = NULL;
  const char *name; ares_dns_rec_type_t t; ares_dns_class_t c;
  ares_dns_rr_t *rr; unsigned char *out = NULL; size_t olen = 0, pad;
  struct in_addr a;
  if (s->fd != VN_FD_BASE) {       /* the retry on the second connection: ordinary small answer */
    unsigned char small[512]; size_t n = vn_build_answer(msg, len, 0, small, sizeof(small));
    vn_reply(s, small, n);
    return;
  }
  if (ares_dns_parse(msg, len, 0, &q) != ARES_SUCCESS) { vn.frame_errors++; return; }
  ares_dns_record_query_get(q, 0, &name, &t, &c);
  (void)pad;
  /* grow the last TXT string until the message is exactly 65533 bytes (2 + message == 65535) */
  {
    size_t want = 65533, n250 = 0, last = 1;
    for (n250 = 0; n250 < 300 && out == NULL; n250++) {
      for (last = 1; last <= 255 && out == NULL; last++) {
        size_t i;
        ares_dns_record_create(&r, ares_dns_record_get_id(q), ARES_FLAG_QR | ARES_FLAG_RD | ARES_FLAG_RA, ARES_OPCODE_QUERY, ARES_RCODE_NOERROR);
        ares_dns_record_query_add(r, name, t, c);
        ares_dns_record_rr_add(&rr, r, ARES_SECTION_ANSWER, name, ARES_REC_TYPE_A, ARES_CLASS_IN, 60);
        a.s_addr = htonl(0x01020304); ares_dns_rr_set_addr(rr, ARES_RR_A_ADDR, &a);
        for (i = 0; i <= n250; i++) {
          unsigned char txt[255]; memset(txt, 'x', sizeof(txt));
          ares_dns_record_rr_add(&rr, r, ARES_SECTION_ADDITIONAL, name, ARES_REC_TYPE_TXT, ARES_CLASS_IN, 60);
          ares_dns_rr_add_abin(rr, ARES_RR_TXT_DATA, txt, (i == n250) ? last : 250);
        }
        if (ares_dns_write(r, &out, &olen) == ARES_SUCCESS && olen != want) { ares_free_string(out); out = NULL; }
        ares_dns_record_destroy(r); r = NULL;
        if (olen > want + 300) { n250 = 1000; break; }
      }
    }
  }
  ares_dns_record_destroy(q);
  if (out == NULL) { printf("could not build a 65533 byte answer\n"); vn.frame_errors++; return; }
  memcpy(big, out, olen); big_len = olen; ares_free_string(out);
  vn_reply(s, big, big_len);
  s->eof = 1;                      /* FIN right behind the answer */
}

static size_t chunk_cb(vn_sock_t *s, size_t avail) { (void)s; return avail; }

int main(void)
{
  ares_channel_t *channel; vn_result_t res; int bad = 0;
  vn_reset(); vn.query_cb = server; vn.chunk_cb = chunk_cb; vn_pending = 0;
  channel = vn_channel(ARES_FLAG_USEVC, 3, 5000);
  if (channel == NULL) return 2;
  vn_query(channel, "host.example.com", &res);
  vn_run(channel, &vn_pending, 100000);
  vn_run(channel, NULL, 10);
  printf("answer frame: %zu bytes; server saw %zu queries on %d connections; query: %s\n", big_len + 2, vn.total_frames, vn.nsocks,
         res.done ? ares_strerror((int)res.status) : "PENDING");
  if (vn.total_frames != 1 || vn.nsocks != 1) {
    printf("VIOLATION: the complete answer that had been received was thrown away and the query re-sent\n");
    bad = 1;
  }
  ares_destroy(channel);
  return bad;
}
