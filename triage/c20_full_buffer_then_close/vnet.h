/* vnet.h - tiny in-process "virtual network" for driving c-ares through its
 * public API only (ares_set_socket_functions_ex + ares_process_fd).
 *
 * No real sockets are used.  Every socket the library opens is a vn_sock_t; the
 * demo decides how many bytes each write accepts, how many bytes each read
 * returns, when the peer closes, and what the mock DNS server answers.  All
 * events are delivered synchronously by vn_run(), so runs are deterministic.
 */
#ifndef VNET_H
#define VNET_H

#include <ares.h>
#include <arpa/inet.h>
#include <errno.h>
#include <netinet/in.h>
#include <stdio.h>
#include <stdlib.h>
#include <string.h>
#include <sys/socket.h>

#define VN_MAXSOCK 512
#define VN_FD_BASE 1000
#define VN_MAXDG   64

typedef struct vn_sock {
  int            fd;
  int            is_tcp;
  int            open;      /* not yet closed by the library */
  int            connected; /* TCP handshake finished */

  /* client -> server: everything the library wrote.  TCP: the raw byte stream.
   * UDP: each datagram is stored as 2-byte length + payload. */
  unsigned char *rx;
  size_t         rx_len;
  size_t         rx_parsed;
  size_t         nframes; /* whole messages the server saw on this socket */

  /* server -> client */
  unsigned char *tx; /* TCP byte stream */
  size_t         tx_len;
  size_t         tx_off;

  struct {
    unsigned char *d;
    size_t         len;
  } dg[VN_MAXDG]; /* UDP datagram queue */

  int    dg_head;
  int    dg_tail;

  int    eof;      /* TCP: server closed its side after the queued bytes */
  int    eof_seen; /* library has read the EOF */

  int    want_read; /* interest last reported through the sock state cb */
  int    want_write;
  size_t nsend;
  size_t nrecv;
} vn_sock_t;

typedef struct {
  vn_sock_t socks[VN_MAXSOCK];
  int       nsocks;
  int       tfo_ok; /* accept ARES_SOCKET_OPT_TCP_FASTOPEN */

  /* bytes of a TCP write to accept; 0 = EWOULDBLOCK; NULL = everything */
  size_t (*accept_cb)(vn_sock_t *s, size_t len);
  /* bytes of a TCP read to hand out (>= 1); NULL = everything available */
  size_t (*chunk_cb)(vn_sock_t *s, size_t avail);
  /* mock DNS server: called once per whole message received */
  void (*query_cb)(vn_sock_t *s, const unsigned char *msg, size_t len);

  size_t total_frames;
  size_t frame_errors; /* messages too short to be DNS (bad framing) */
  int    verbose;
} vn_t;

static vn_t vn;

static void vn_reset(void)
{
  int i;
  for (i = 0; i < vn.nsocks; i++) {
    int j;
    free(vn.socks[i].rx);
    free(vn.socks[i].tx);
    for (j = 0; j < VN_MAXDG; j++) {
      free(vn.socks[i].dg[j].d);
    }
  }
  memset(&vn, 0, sizeof(vn));
}

static vn_sock_t *vn_find(ares_socket_t fd)
{
  int idx = (int)fd - VN_FD_BASE;
  if (idx < 0 || idx >= vn.nsocks) {
    return NULL;
  }
  return &vn.socks[idx];
}

static void vn_append(unsigned char **buf, size_t *len, const void *data,
                      size_t dlen)
{
  *buf = realloc(*buf, *len + dlen + 1);
  if (*buf == NULL) {
    abort();
  }
  if (dlen) {
    memcpy(*buf + *len, data, dlen);
  }
  *len += dlen;
}

/* ---- server side helpers ------------------------------------------------ */

static void vn_reply_tcp(vn_sock_t *s, const unsigned char *msg, size_t len)
{
  unsigned char hdr[2];
  hdr[0] = (unsigned char)(len >> 8);
  hdr[1] = (unsigned char)(len & 0xff);
  vn_append(&s->tx, &s->tx_len, hdr, 2);
  vn_append(&s->tx, &s->tx_len, msg, len);
}

static void vn_reply_udp(vn_sock_t *s, const unsigned char *msg, size_t len)
{
  int slot = s->dg_tail % VN_MAXDG;
  if (s->dg_tail - s->dg_head >= VN_MAXDG) {
    abort();
  }
  free(s->dg[slot].d);
  s->dg[slot].d = malloc(len + 1);
  if (len) {
    memcpy(s->dg[slot].d, msg, len);
  }
  s->dg[slot].len = len;
  s->dg_tail++;
}

static void vn_reply(vn_sock_t *s, const unsigned char *msg, size_t len)
{
  if (s->is_tcp) {
    vn_reply_tcp(s, msg, len);
  } else {
    vn_reply_udp(s, msg, len);
  }
}

/* Build an answer for a (single question, uncompressed) query: same id, same
 * question, one A record 1.2.3.4; if tc is set the TC bit is set as well.
 * Returns the answer length, 0 if the query cannot be understood. */
static size_t vn_build_answer(const unsigned char *q, size_t qlen, int tc,
                              unsigned char *out, size_t outsz)
{
  size_t                     p = 12;
  size_t                     n;
  static const unsigned char rr[] = { 0xC0, 0x0C, 0x00, 0x01, 0x00, 0x01,
                                      0x00, 0x00, 0x01, 0x00, 0x00, 0x04,
                                      0x01, 0x02, 0x03, 0x04 };
  if (qlen < 17) {
    return 0;
  }
  while (p < qlen && q[p] != 0) {
    if (q[p] & 0xC0) {
      return 0;
    }
    p += (size_t)q[p] + 1;
  }
  p += 1 + 4; /* root label, qtype, qclass */
  if (p > qlen || p + sizeof(rr) > outsz) {
    return 0;
  }
  memcpy(out, q, p);
  out[2] = (unsigned char)(0x81 | (tc ? 0x02 : 0x00)); /* QR RD [TC] */
  out[3] = 0x80;                                       /* RA, NOERROR */
  out[4] = 0;
  out[5] = 1; /* qdcount */
  out[6] = 0;
  out[7] = 1; /* ancount */
  out[8] = out[9] = out[10] = out[11] = 0;
  n                                   = p;
  memcpy(out + n, rr, sizeof(rr));
  n += sizeof(rr);
  return n;
}

/* Extract the (lower-cased, dotted) question name of a query, for logging and
 * for checking what the server saw. */
static void vn_qname(const unsigned char *q, size_t qlen, char *name,
                     size_t namesz)
{
  size_t p = 12;
  size_t o = 0;
  name[0]  = 0;
  while (p < qlen && q[p] != 0 && !(q[p] & 0xC0)) {
    size_t l = q[p++];
    size_t i;
    for (i = 0; i < l && p < qlen && o + 2 < namesz; i++, p++) {
      unsigned char c = q[p];
      if (c >= 'A' && c <= 'Z') {
        c = (unsigned char)(c + 32);
      }
      name[o++] = (char)c;
    }
    if (o + 2 < namesz) {
      name[o++] = '.';
    }
  }
  if (o > 0) {
    o--;
  }
  name[o] = 0;
}

static void vn_server_run(vn_sock_t *s)
{
  while (s->rx_len - s->rx_parsed >= 2) {
    size_t l = ((size_t)s->rx[s->rx_parsed] << 8) | s->rx[s->rx_parsed + 1];
    if (s->rx_len - s->rx_parsed - 2 < l) {
      break;
    }
    s->nframes++;
    vn.total_frames++;
    if (l < 12) {
      vn.frame_errors++;
      if (vn.verbose) {
        fprintf(stderr, "  server: fd %d: bogus %s of %zu bytes\n", s->fd,
                s->is_tcp ? "TCP frame" : "datagram", l);
      }
    } else if (vn.query_cb) {
      /* copy: the callback may grow s->rx indirectly? no, but be safe */
      unsigned char *m = malloc(l);
      memcpy(m, s->rx + s->rx_parsed + 2, l);
      vn.query_cb(s, m, l);
      free(m);
    }
    s->rx_parsed += 2 + l;
  }
}

/* ---- socket functions handed to c-ares ---------------------------------- */

static ares_socket_t vn_asocket(int domain, int type, int protocol, void *ud)
{
  vn_sock_t *s;
  (void)domain;
  (void)protocol;
  (void)ud;
  if (vn.nsocks >= VN_MAXSOCK) {
    errno = EMFILE;
    return ARES_SOCKET_BAD;
  }
  s = &vn.socks[vn.nsocks];
  memset(s, 0, sizeof(*s));
  s->fd     = VN_FD_BASE + vn.nsocks;
  s->is_tcp = (type == SOCK_STREAM);
  s->open   = 1;
  vn.nsocks++;
  if (vn.verbose) {
    fprintf(stderr, "  socket: fd %d (%s)\n", s->fd, s->is_tcp ? "tcp" : "udp");
  }
  return s->fd;
}

static int vn_aclose(ares_socket_t fd, void *ud)
{
  vn_sock_t *s = vn_find(fd);
  (void)ud;
  if (s == NULL) {
    errno = EBADF;
    return -1;
  }
  s->open = 0;
  if (vn.verbose) {
    fprintf(stderr, "  close: fd %d\n", s->fd);
  }
  return 0;
}

static int vn_asetsockopt(ares_socket_t fd, ares_socket_opt_t opt,
                          const void *val, ares_socklen_t val_size, void *ud)
{
  (void)fd;
  (void)val;
  (void)val_size;
  (void)ud;
  if (opt == ARES_SOCKET_OPT_TCP_FASTOPEN && vn.tfo_ok) {
    return 0;
  }
  errno = ENOSYS;
  return -1;
}

static int vn_aconnect(ares_socket_t fd, const struct sockaddr *addr,
                       ares_socklen_t addrlen, unsigned int flags, void *ud)
{
  vn_sock_t *s = vn_find(fd);
  (void)addr;
  (void)addrlen;
  (void)flags;
  (void)ud;
  if (s == NULL) {
    errno = EBADF;
    return -1;
  }
  if (!s->is_tcp) {
    s->connected = 1;
    return 0;
  }
  /* non-blocking TCP connect: completes on the next vn_pump_once() */
  errno = EINPROGRESS;
  return -1;
}

static ares_ssize_t vn_arecvfrom(ares_socket_t fd, void *buffer, size_t length,
                                 int flags, struct sockaddr *address,
                                 ares_socklen_t *address_len, void *ud)
{
  vn_sock_t *s = vn_find(fd);
  (void)flags;
  (void)ud;
  if (s == NULL || !s->open) {
    errno = EBADF;
    return -1;
  }
  s->nrecv++;
  if (address != NULL && address_len != NULL &&
      *address_len >= (ares_socklen_t)sizeof(struct sockaddr_in)) {
    struct sockaddr_in sin;
    memset(&sin, 0, sizeof(sin));
    sin.sin_family      = AF_INET;
    sin.sin_port        = htons(53);
    sin.sin_addr.s_addr = inet_addr("10.0.0.1");
    memcpy(address, &sin, sizeof(sin));
    *address_len = sizeof(sin);
  }
  if (s->is_tcp) {
    size_t avail = s->tx_len - s->tx_off;
    size_t n;
    if (avail == 0) {
      if (s->eof) {
        s->eof_seen = 1;
        return 0;
      }
      errno = EWOULDBLOCK;
      return -1;
    }
    n = vn.chunk_cb ? vn.chunk_cb(s, avail) : avail;
    if (n < 1) {
      n = 1;
    }
    if (n > avail) {
      n = avail;
    }
    if (n > length) {
      n = length;
    }
    memcpy(buffer, s->tx + s->tx_off, n);
    s->tx_off += n;
    return (ares_ssize_t)n;
  } else {
    int    slot;
    size_t n;
    if (s->dg_head == s->dg_tail) {
      errno = EWOULDBLOCK;
      return -1;
    }
    slot = s->dg_head % VN_MAXDG;
    n    = s->dg[slot].len;
    if (n > length) {
      n = length;
    }
    if (n) {
      memcpy(buffer, s->dg[slot].d, n);
    }
    s->dg_head++;
    return (ares_ssize_t)n;
  }
}

static ares_ssize_t vn_asendto(ares_socket_t fd, const void *buffer,
                               size_t length, int flags,
                               const struct sockaddr *address,
                               ares_socklen_t address_len, void *ud)
{
  vn_sock_t *s = vn_find(fd);
  size_t     n = length;
  (void)flags;
  (void)address;
  (void)address_len;
  (void)ud;
  if (s == NULL || !s->open) {
    errno = EBADF;
    return -1;
  }
  s->nsend++;
  if (s->is_tcp && !s->connected) {
    errno = EWOULDBLOCK;
    return -1;
  }
  if (vn.accept_cb) {
    n = vn.accept_cb(s, length);
    if (n > length) {
      n = length;
    }
    if (!s->is_tcp && n != 0) {
      n = length; /* datagrams are all or nothing */
    }
  }
  if (n == 0) {
    errno = EWOULDBLOCK;
    return -1;
  }
  if (!s->is_tcp) {
    unsigned char hdr[2];
    hdr[0] = (unsigned char)(n >> 8);
    hdr[1] = (unsigned char)(n & 0xff);
    vn_append(&s->rx, &s->rx_len, hdr, 2);
  }
  vn_append(&s->rx, &s->rx_len, buffer, n);
  vn_server_run(s);
  return (ares_ssize_t)n;
}

static const struct ares_socket_functions_ex vn_funcs = {
  1,
  ARES_SOCKFUNC_FLAG_NONBLOCKING,
  vn_asocket,
  vn_aclose,
  vn_asetsockopt,
  vn_aconnect,
  vn_arecvfrom,
  vn_asendto,
  NULL, /* agetsockname */
  NULL, /* abind */
  NULL, /* aif_nametoindex */
  NULL  /* aif_indextoname */
};

static void vn_sock_state_cb(void *data, ares_socket_t fd, int readable,
                             int writable)
{
  vn_sock_t *s = vn_find(fd);
  (void)data;
  if (s == NULL) {
    return;
  }
  s->want_read  = readable;
  s->want_write = writable;
}

/* ---- channel + event loop ----------------------------------------------- */

/* flags: ARES_FLAG_* ; tries/timeout_ms as in struct ares_options */
static ares_channel_t *vn_channel(int flags, int tries, int timeout_ms)
{
  struct ares_options opts;
  int                 optmask = 0;
  ares_channel_t     *channel = NULL;
  int                 rc;

  memset(&opts, 0, sizeof(opts));
  opts.flags               = flags | ARES_FLAG_NOSEARCH | ARES_FLAG_NOALIASES;
  optmask                 |= ARES_OPT_FLAGS;
  opts.tries               = tries;
  optmask                 |= ARES_OPT_TRIES;
  opts.timeout             = timeout_ms;
  optmask                 |= ARES_OPT_TIMEOUTMS;
  opts.lookups             = (char *)"b";
  optmask                 |= ARES_OPT_LOOKUPS;
  opts.sock_state_cb       = vn_sock_state_cb;
  opts.sock_state_cb_data  = NULL;
  optmask                 |= ARES_OPT_SOCK_STATE_CB;
  opts.qcache_max_ttl      = 0; /* no query cache: every query hits the wire */
  optmask                 |= ARES_OPT_QUERY_CACHE;

  rc = ares_init_options(&channel, &opts, optmask);
  if (rc != ARES_SUCCESS) {
    return NULL;
  }
  if (ares_set_socket_functions_ex(channel, &vn_funcs, NULL) != ARES_SUCCESS) {
    ares_destroy(channel);
    return NULL;
  }
  if (ares_set_servers_csv(channel, "10.0.0.1") != ARES_SUCCESS) {
    ares_destroy(channel);
    return NULL;
  }
  return channel;
}

static int vn_readable(const vn_sock_t *s)
{
  if (s->is_tcp) {
    return (s->tx_off < s->tx_len) || (s->eof && !s->eof_seen);
  }
  return s->dg_head != s->dg_tail;
}

/* Deliver one round of readiness events.  Returns non-zero if any event was
 * delivered. */
static int vn_pump_once(ares_channel_t *channel)
{
  int i;
  int progress = 0;
  int n        = vn.nsocks;

  for (i = 0; i < n; i++) {
    vn_sock_t    *s = &vn.socks[i];
    ares_socket_t r = ARES_SOCKET_BAD;
    ares_socket_t w = ARES_SOCKET_BAD;

    if (!s->open) {
      continue;
    }
    if (s->is_tcp && !s->connected) {
      s->connected = 1; /* handshake completes, socket turns writable */
    }
    if (s->want_write) {
      w = s->fd;
    }
    if (s->want_read && vn_readable(s)) {
      r = s->fd;
    }
    if (r != ARES_SOCKET_BAD || w != ARES_SOCKET_BAD) {
      ares_process_fd(channel, r, w);
      progress = 1;
    }
  }
  return progress;
}

/* Run until *pending drops to zero, nothing more happens, or max_rounds. */
static void vn_run(ares_channel_t *channel, const int *pending, int max_rounds)
{
  int rounds = 0;
  while ((pending == NULL || *pending > 0) && rounds++ < max_rounds) {
    if (!vn_pump_once(channel)) {
      /* nothing ready: give the library a chance to run housekeeping */
      ares_process_fd(channel, ARES_SOCKET_BAD, ARES_SOCKET_BAD);
      if (!vn_pump_once(channel)) {
        break;
      }
    }
  }
}

/* ---- query bookkeeping --------------------------------------------------- */

typedef struct {
  int           done;
  ares_status_t status;
  size_t        timeouts;
  int           has_a; /* answer carried the A record 1.2.3.4 */
  int           tc;    /* answer had the TC bit */
} vn_result_t;

static int  vn_pending;

static void vn_query_cb(void *arg, ares_status_t status, size_t timeouts,
                        const ares_dns_record_t *rec)
{
  vn_result_t *r = arg;
  r->done++;
  r->status   = status;
  r->timeouts = timeouts;
  if (rec != NULL) {
    size_t i;
    r->tc = (ares_dns_record_get_flags(rec) & ARES_FLAG_TC) ? 1 : 0;
    for (i = 0; i < ares_dns_record_rr_cnt(rec, ARES_SECTION_ANSWER); i++) {
      const ares_dns_rr_t *rr =
        ares_dns_record_rr_get_const(rec, ARES_SECTION_ANSWER, i);
      if (ares_dns_rr_get_type(rr) == ARES_REC_TYPE_A) {
        const struct in_addr *a = ares_dns_rr_get_addr(rr, ARES_RR_A_ADDR);
        if (a != NULL && a->s_addr == inet_addr("1.2.3.4")) {
          r->has_a = 1;
        }
      }
    }
  }
  vn_pending--;
}

static ares_status_t vn_query(ares_channel_t *channel, const char *name,
                              vn_result_t *res)
{
  memset(res, 0, sizeof(*res));
  vn_pending++;
  return ares_query_dnsrec(channel, name, ARES_CLASS_IN, ARES_REC_TYPE_A,
                           vn_query_cb, res, NULL);
}

#endif
