/* C19: "the array ... stays usable after any removal pattern".  Fill an ares_array to exactly its allocation, remove every element
 * from the front (offset == alloc_cnt, cnt == 0): the next insert asks ares_array_move(arr, 0, offset) with src == alloc_cnt and
 * fails with ARES_EFORMERR for ever. */
#include "ares_private.h"
#include <stdio.h>
int main(void){ ares_array_t*a=ares_array_create(sizeof(int),NULL); int i,v; ares_status_t st;
  for(i=0;i<4;i++){ v=i; ares_array_insertdata_last(a,&v); }           /* ARES__ARRAY_MIN == 4: exactly full */
  for(i=0;i<4;i++) ares_array_remove_first(a);
  v=42; st=ares_array_insertdata_last(a,&v);
  printf("insert into the emptied array: %s, len=%zu\n",ares_strerror((int)st),ares_array_len(a));
  return st==ARES_SUCCESS?0:1; }
