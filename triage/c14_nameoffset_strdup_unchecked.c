/* replay: ares_nameoffset_create() does not test the result of ares_strdup().  With that one allocation failing the compression table holds
 * an entry with a NULL name and length 0; a later name that ends in '.' "matches" it (ares_streq(NULL, "") is true, the character in front
 * is '.'), is cut by one character and followed by a pointer to the first name: ares_dns_write() SUCCEEDS and the message says
 * www.other.org.example.com where the record says www.other.org. -- silent corruption after a single allocation failure. */
#include <ares.h>
#include <stdio.h>
#include <stdlib.h>
#include <string.h>

static long g_count = 0, g_fail = -1;
static void *m_malloc(size_t n) { g_count++; if (g_count == g_fail) return NULL; return malloc(n); }
static void *m_realloc(void *p, size_t n) { g_count++; if (g_count == g_fail) return NULL; return realloc(p, n); }
static void m_free(void *p) { free(p); }

int main(void)
{
  long k; int viol = 0, refused = 0, fine = 0;
  ares_library_init_mem(ARES_LIB_INIT_ALL, m_malloc, m_free, m_realloc);
  for (k = 1; k < 200; k++) {
    ares_dns_record_t *rec = NULL, *back = NULL; ares_dns_rr_t *rr = NULL; unsigned char *buf = NULL; size_t len = 0; int rc;
    g_fail = -1;
    ares_dns_record_create(&rec, 1, ARES_FLAG_QR, ARES_OPCODE_QUERY, ARES_RCODE_NOERROR);
    ares_dns_record_query_add(rec, "example.com", ARES_REC_TYPE_CNAME, ARES_CLASS_IN);
    ares_dns_record_rr_add(&rr, rec, ARES_SECTION_ANSWER, "example.com", ARES_REC_TYPE_CNAME, ARES_CLASS_IN, 60);
    ares_dns_rr_set_str(rr, ARES_RR_CNAME_CNAME, "www.other.org.");
    g_count = 0; g_fail = k;
    rc = ares_dns_write(rec, &buf, &len);
    g_fail = -1;
    if (g_count < k) { ares_dns_record_destroy(rec); if (rc == ARES_SUCCESS) ares_free_string(buf); break; }   /* no more allocations to fail */
    if (rc != ARES_SUCCESS) { refused++; ares_dns_record_destroy(rec); continue; }
    if (ares_dns_parse(buf, len, 0, &back) == ARES_SUCCESS) {
      const char *t = ares_dns_rr_get_str(ares_dns_record_rr_get(back, ARES_SECTION_ANSWER, 0), ARES_RR_CNAME_CNAME);
      if (t == NULL || (strcmp(t, "www.other.org") != 0 && strcmp(t, "www.other.org.") != 0)) {
        printf("allocation #%ld failing: write SUCCEEDED, CNAME target on the wire is '%s'\n", k, t ? t : "(null)"); viol++;
      } else fine++;
      ares_dns_record_destroy(back);
    } else { printf("allocation #%ld failing: write SUCCEEDED, bytes do not parse\n", k); viol++; }
    ares_free_string(buf); ares_dns_record_destroy(rec);
  }
  printf("%d failure positions: %d reported ENOMEM, %d harmless, %d wrote a different message\n", refused + fine + viol, refused, fine, viol);
  printf(viol ? "VIOLATION\n" : "ok\n");
  return viol != 0;
}
