/* replay: an NXDOMAIN response that carries a CNAME (TTL 1) in its answer section and the zone's SOA (TTL/MINIMUM 600) in the authority
 * section was cached for the SOA's 600 s alone: the lifetime ignored the TTL of the CNAME the response itself carries.  The same question
 * 3 s later was answered from the cache (no traffic) although the response's own TTLs allow 1 s. */
#include "mockdns.h"

typedef struct { int done; ares_status_t status; } result_t;

static ares_dns_record_t *respond(mock_t *m, const ares_dns_record_t *req)
{
  ares_dns_record_t *resp = mock_reply_base(req, ARES_RCODE_NXDOMAIN, 0);
  const char        *name;
  ares_dns_rr_t     *rr = NULL;
  (void)m;
  SETUP(ares_dns_record_query_get(req, 0, &name, NULL, NULL) == ARES_SUCCESS);
  SETUP(ares_dns_record_rr_add(&rr, resp, ARES_SECTION_ANSWER, name, ARES_REC_TYPE_CNAME, ARES_CLASS_IN, 1) == ARES_SUCCESS);
  SETUP(ares_dns_rr_set_str(rr, ARES_RR_CNAME_CNAME, "gone.example.com") == ARES_SUCCESS);
  mock_add_soa(resp, ARES_SECTION_AUTHORITY, "example.com", 600, 600);
  return resp;
}

static void cb(void *arg, ares_status_t status, size_t timeouts, const ares_dns_record_t *dnsrec)
{ result_t *r = arg; (void)timeouts; (void)dnsrec; r->done = 1; r->status = status; }

int main(void)
{
  mock_t m; mock_t *mocks[1]; ares_channel_t *channel; char csv[64]; result_t r; ares_dns_record_t *req = NULL;
  SETUP(ares_library_init(ARES_LIB_INIT_ALL) == ARES_SUCCESS);
  mock_init(&m, respond, NULL); mocks[0] = &m;
  snprintf(csv, sizeof(csv), "127.0.0.1:%u", m.port);
  channel = make_channel(3600, 0, csv);
  SETUP(ares_dns_record_create(&req, 0, ARES_FLAG_RD, ARES_OPCODE_QUERY, ARES_RCODE_NOERROR) == ARES_SUCCESS);
  SETUP(ares_dns_record_query_add(req, "alias.example.com", ARES_REC_TYPE_A, ARES_CLASS_IN) == ARES_SUCCESS);
  memset(&r, 0, sizeof(r)); ares_send_dnsrec(channel, req, cb, &r, NULL); run_until(channel, mocks, 1, &r.done);
  printf("first : %s, server saw %d request(s)\n", ares_strerror((int)r.status), m.nqueries);
  sleep(3);
  memset(&r, 0, sizeof(r)); ares_send_dnsrec(channel, req, cb, &r, NULL); run_until(channel, mocks, 1, &r.done);
  printf("second: %s, server saw %d request(s)\n", ares_strerror((int)r.status), m.nqueries);
  CHECK(m.nqueries == 2, "the NXDOMAIN response was replayed from the cache 3 s later although it carries a CNAME with TTL 1");
  ares_dns_record_destroy(req); ares_destroy(channel); close(m.fd); ares_library_cleanup();
  return 0;
}
