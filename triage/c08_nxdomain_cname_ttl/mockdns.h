/* Tiny in-process mock DNS server (UDP, loopback) + event loop helper for the
 * stand-alone demonstrations.  Uses only the public c-ares API. */
#ifndef MOCKDNS_H
#define MOCKDNS_H

#define CARES_NO_DEPRECATED 1
#include <ares.h>
#include <arpa/inet.h>
#include <netinet/in.h>
#include <stdio.h>
#include <stdlib.h>
#include <string.h>
#include <sys/select.h>
#include <sys/socket.h>
#include <sys/time.h>
#include <time.h>
#include <unistd.h>

struct mock;
typedef ares_dns_record_t *(*mock_respond_t)(struct mock             *m,
                                             const ares_dns_record_t *req);

typedef struct mock {
  int            fd;
  unsigned short port;
  int            nqueries; /* number of requests seen on the wire */
  mock_respond_t respond;
  void          *ud;
} mock_t;

#define CHECK(cond, ...)                                \
  do {                                                  \
    if (!(cond)) {                                      \
      fprintf(stderr, "VIOLATION/FAIL %s:%d: ", __FILE__, __LINE__); \
      fprintf(stderr, __VA_ARGS__);                     \
      fprintf(stderr, "\n");                            \
      exit(1);                                          \
    }                                                   \
  } while (0)

#define SETUP(cond)                                                      \
  do {                                                                   \
    if (!(cond)) {                                                       \
      fprintf(stderr, "SETUP ERROR %s:%d: %s\n", __FILE__, __LINE__, #cond); \
      exit(2);                                                           \
    }                                                                    \
  } while (0)

static void mock_init(mock_t *m, mock_respond_t respond, void *ud)
{
  struct sockaddr_in sa;
  socklen_t          slen = sizeof(sa);

  memset(m, 0, sizeof(*m));
  m->respond = respond;
  m->ud      = ud;
  m->fd      = socket(AF_INET, SOCK_DGRAM, 0);
  SETUP(m->fd >= 0);
  memset(&sa, 0, sizeof(sa));
  sa.sin_family      = AF_INET;
  sa.sin_addr.s_addr = htonl(INADDR_LOOPBACK);
  sa.sin_port        = 0;
  SETUP(bind(m->fd, (struct sockaddr *)&sa, sizeof(sa)) == 0);
  SETUP(getsockname(m->fd, (struct sockaddr *)&sa, &slen) == 0);
  m->port = ntohs(sa.sin_port);
}

/* Create a response skeleton: same id, opcode and question as the request,
 * QR set, RD/CD copied, RA set, plus extra_flags */
static ares_dns_record_t *mock_reply_base(const ares_dns_record_t *req,
                                          ares_dns_rcode_t         rcode,
                                          unsigned short           extra_flags)
{
  ares_dns_record_t  *resp = NULL;
  const char         *name;
  ares_dns_rec_type_t qtype;
  ares_dns_class_t    qclass;
  unsigned short      flags;

  flags = (unsigned short)(ARES_FLAG_QR | ARES_FLAG_RA | extra_flags |
                           (ares_dns_record_get_flags(req) &
                            (ARES_FLAG_RD | ARES_FLAG_CD)));
  SETUP(ares_dns_record_create(&resp, ares_dns_record_get_id(req), flags,
                               ares_dns_record_get_opcode(req),
                               rcode) == ARES_SUCCESS);
  SETUP(ares_dns_record_query_get(req, 0, &name, &qtype, &qclass) ==
        ARES_SUCCESS);
  SETUP(ares_dns_record_query_add(resp, name, qtype, qclass) == ARES_SUCCESS);
  return resp;
}

__attribute__((unused)) static void mock_add_a(ares_dns_record_t *resp, ares_dns_section_t sect,
                       const char *name, unsigned int ttl, const char *ip)
{
  ares_dns_rr_t *rr = NULL;
  struct in_addr a;
  SETUP(inet_pton(AF_INET, ip, &a) == 1);
  SETUP(ares_dns_record_rr_add(&rr, resp, sect, name, ARES_REC_TYPE_A,
                               ARES_CLASS_IN, ttl) == ARES_SUCCESS);
  SETUP(ares_dns_rr_set_addr(rr, ARES_RR_A_ADDR, &a) == ARES_SUCCESS);
}

__attribute__((unused)) static void mock_add_soa(ares_dns_record_t *resp, ares_dns_section_t sect,
                         const char *zone, unsigned int ttl,
                         unsigned int minimum)
{
  ares_dns_rr_t *rr = NULL;
  SETUP(ares_dns_record_rr_add(&rr, resp, sect, zone, ARES_REC_TYPE_SOA,
                               ARES_CLASS_IN, ttl) == ARES_SUCCESS);
  SETUP(ares_dns_rr_set_str(rr, ARES_RR_SOA_MNAME, "ns.example.com") ==
        ARES_SUCCESS);
  SETUP(ares_dns_rr_set_str(rr, ARES_RR_SOA_RNAME, "admin.example.com") ==
        ARES_SUCCESS);
  SETUP(ares_dns_rr_set_u32(rr, ARES_RR_SOA_SERIAL, 1) == ARES_SUCCESS);
  SETUP(ares_dns_rr_set_u32(rr, ARES_RR_SOA_REFRESH, 3600) == ARES_SUCCESS);
  SETUP(ares_dns_rr_set_u32(rr, ARES_RR_SOA_RETRY, 600) == ARES_SUCCESS);
  SETUP(ares_dns_rr_set_u32(rr, ARES_RR_SOA_EXPIRE, 86400) == ARES_SUCCESS);
  SETUP(ares_dns_rr_set_u32(rr, ARES_RR_SOA_MINIMUM, minimum) == ARES_SUCCESS);
}

static void mock_service(mock_t *m)
{
  unsigned char           buf[2048];
  struct sockaddr_storage from;
  socklen_t               fromlen = sizeof(from);
  ssize_t                 n;
  ares_dns_record_t      *req  = NULL;
  ares_dns_record_t      *resp = NULL;
  unsigned char          *out  = NULL;
  size_t                  outlen;

  n = recvfrom(m->fd, buf, sizeof(buf), 0, (struct sockaddr *)&from, &fromlen);
  if (n <= 0) {
    return;
  }
  SETUP(ares_dns_parse(buf, (size_t)n, 0, &req) == ARES_SUCCESS);
  m->nqueries++;
  resp = m->respond(m, req);
  if (resp != NULL) {
    SETUP(ares_dns_write(resp, &out, &outlen) == ARES_SUCCESS);
    SETUP(sendto(m->fd, out, outlen, 0, (struct sockaddr *)&from, fromlen) ==
          (ssize_t)outlen);
    ares_free_string(out);
    ares_dns_record_destroy(resp);
  }
  ares_dns_record_destroy(req);
}

/* Drive the channel and the mock servers until *done becomes non-zero (or a
 * 10 s deadline passes, which is a setup error) */
static void run_until(ares_channel_t *channel, mock_t **mocks, size_t nmocks,
                      const int *done)
{
  time_t deadline = time(NULL) + 10;

  while (!*done) {
    fd_set         rfds;
    fd_set         wfds;
    int            nfds;
    size_t         i;
    struct timeval tv;
    struct timeval maxtv = { 0, 50000 };

    SETUP(time(NULL) <= deadline);

    FD_ZERO(&rfds);
    FD_ZERO(&wfds);
    nfds = ares_fds(channel, &rfds, &wfds);
    for (i = 0; i < nmocks; i++) {
      FD_SET(mocks[i]->fd, &rfds);
      if (mocks[i]->fd >= nfds) {
        nfds = mocks[i]->fd + 1;
      }
    }
    tv = maxtv;
    ares_timeout(channel, &maxtv, &tv);
    select(nfds, &rfds, &wfds, NULL, &tv);
    for (i = 0; i < nmocks; i++) {
      if (FD_ISSET(mocks[i]->fd, &rfds)) {
        mock_service(mocks[i]);
        FD_CLR(mocks[i]->fd, &rfds);
      }
    }
    ares_process(channel, &rfds, &wfds);
  }
}

/* Channel with the query cache enabled, no EDNS/cookies, no search, servers
 * given as csv of "ip:port" */
static ares_channel_t *make_channel(unsigned int qcache_max_ttl, int flags,
                                    const char *servers_csv)
{
  struct ares_options opts;
  ares_channel_t     *channel = NULL;
  int                 optmask;

  memset(&opts, 0, sizeof(opts));
  opts.flags          = flags | ARES_FLAG_NOSEARCH | ARES_FLAG_NOALIASES;
  opts.qcache_max_ttl = qcache_max_ttl;
  opts.timeout        = 2000;
  opts.tries          = 2;
  optmask = ARES_OPT_FLAGS | ARES_OPT_QUERY_CACHE | ARES_OPT_TIMEOUTMS |
            ARES_OPT_TRIES;
  SETUP(ares_init_options(&channel, &opts, optmask) == ARES_SUCCESS);
  SETUP(ares_set_servers_ports_csv(channel, servers_csv) == ARES_SUCCESS);
  return channel;
}

#endif
