/* C19: ares_llist_insert_before()/insert_after() with a target in the middle of the list never update the forward link of the
 * preceding node: forward traversal skips the new node while backward traversal and the count see it. */
#include "ares_private.h"
#include <stdio.h>
int main(void){ ares_llist_t*l=ares_llist_create(NULL); ares_llist_node_t*n1,*n3,*n; int fwd=0,bwd=0;
  n1=ares_llist_insert_last(l,(void*)1); n3=ares_llist_insert_last(l,(void*)3); (void)n1;
  ares_llist_insert_before(n3,(void*)2);
  printf("forward:"); for(n=ares_llist_node_first(l);n;n=ares_llist_node_next(n)){ printf(" %ld",(long)ares_llist_node_val(n)); fwd++; }
  printf("\nbackward:"); for(n=ares_llist_node_last(l);n;n=ares_llist_node_prev(n)){ printf(" %ld",(long)ares_llist_node_val(n)); bwd++; }
  printf("\nlen=%zu\n",ares_llist_len(l)); return (fwd==3&&bwd==3)?0:1; }
