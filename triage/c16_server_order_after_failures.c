/* replay: the server list exported by ares_get_servers_csv() / ares_save_options() / ares_dup() is the channel's skip list, which is
 * sorted by consecutive failures first and configuration index second.  After the first configured server has failed once, the exported
 * (and duplicated) list starts with the second server: the duplicate's "configuration order" differs from the one the user gave. */
#include <ares.h>
#include <stdio.h>
#include <string.h>
#include <stdlib.h>
#include <sys/select.h>
#include <sys/socket.h>
#include <netinet/in.h>
#include <arpa/inet.h>
#include <unistd.h>

static int done;
static void cb(void *arg, int status, int timeouts, unsigned char *abuf, int alen) { (void)arg; (void)timeouts; (void)abuf; (void)alen; done = 1; printf("query finished: %s\n", ares_strerror(status)); }

int main(void)
{
  ares_channel_t *ch = NULL, *dup = NULL;
  struct ares_options o;
  char cfg[128], *before, *after, *dcsv;
  int s1, s2, bad = 0, i;
  struct sockaddr_in a; socklen_t al = sizeof(a);
  /* two local UDP ports: the first is closed again (ICMP port unreachable -> the server fails), the second answers */
  s1 = socket(AF_INET, SOCK_DGRAM, 0); s2 = socket(AF_INET, SOCK_DGRAM, 0);
  memset(&a, 0, sizeof(a)); a.sin_family = AF_INET; a.sin_addr.s_addr = htonl(INADDR_LOOPBACK);
  bind(s1, (struct sockaddr *)&a, sizeof(a)); getsockname(s1, (struct sockaddr *)&a, &al); i = ntohs(a.sin_port);
  memset(&a, 0, sizeof(a)); a.sin_family = AF_INET; a.sin_addr.s_addr = htonl(INADDR_LOOPBACK);
  bind(s2, (struct sockaddr *)&a, sizeof(a)); al = sizeof(a); getsockname(s2, (struct sockaddr *)&a, &al);
  snprintf(cfg, sizeof(cfg), "127.0.0.1:%d,127.0.0.1:%d", i, ntohs(a.sin_port));
  close(s1);
  ares_library_init(ARES_LIB_INIT_ALL);
  memset(&o, 0, sizeof(o)); o.flags = ARES_FLAG_NOSEARCH; o.timeout = 200; o.tries = 1;
  if (ares_init_options(&ch, &o, ARES_OPT_FLAGS | ARES_OPT_TIMEOUTMS | ARES_OPT_TRIES) != ARES_SUCCESS) return 2;
  ares_set_servers_ports_csv(ch, cfg);
  before = ares_get_servers_csv(ch);
  ares_query(ch, "example.com", 1, 1, cb, NULL);
  for (i = 0; i < 50 && !done; i++) {
    fd_set r, w; struct timeval tv, *tvp; int n;
    FD_ZERO(&r); FD_ZERO(&w); n = ares_fds(ch, &r, &w); tvp = ares_timeout(ch, NULL, &tv);
    if (tvp && (tvp->tv_sec > 0 || tvp->tv_usec > 50000)) { tvp->tv_sec = 0; tvp->tv_usec = 50000; }
    select(n, &r, &w, NULL, tvp); ares_process(ch, &r, &w);
    { /* the second server answers (NOERROR, no records) */
      unsigned char pkt[512]; struct sockaddr_in from; socklen_t fl = sizeof(from);
      ssize_t got = recvfrom(s2, pkt, sizeof(pkt), MSG_DONTWAIT, (struct sockaddr *)&from, &fl);
      if (got > 12) { pkt[2] |= 0x80; pkt[3] = 0x80; sendto(s2, pkt, (size_t)got, 0, (struct sockaddr *)&from, fl); }
    }
  }
  after = ares_get_servers_csv(ch);
  ares_dup(&dup, ch);
  dcsv = dup ? ares_get_servers_csv(dup) : NULL;
  printf("configured : %s\nafter fail : %s\nduplicate  : %s\n", before, after, dcsv ? dcsv : "(null)");
  if (strcmp(before, after) != 0 || dcsv == NULL || strcmp(before, dcsv) != 0) bad = 1;
  ares_free_string(before); ares_free_string(after); ares_free_string(dcsv);
  if (dup) ares_destroy(dup);
  ares_destroy(ch); ares_library_cleanup(); close(s2);
  printf(bad ? "VIOLATION: exported / duplicated server order differs from the configured order\n" : "ok\n");
  return bad;
}
