/* replay: a well-formed message whose CNAME target has one 63-octet label of 0x01 bytes (69 octets on the wire, 260 characters when escaped)
 * parses, but ares_dns_write / ares_dns_record_duplicate fail: ares_nameoffset_create() capped the PRESENTATION length at 255. */
#include <ares.h>
#include <stdio.h>
#include <string.h>
int main(void){
  ares_dns_record_t *rec=NULL,*dup=NULL; ares_dns_rr_t *rr=NULL; unsigned char *buf=NULL; size_t len=0; int rc; char name[600]=""; int i;
  unsigned char msg[300]; size_t n=0;
  ares_library_init(ARES_LIB_INIT_ALL);
  /* wire message: question a.example A; answer a.example CNAME <63 x 0x01>.example */
  unsigned char hdr[]={0x12,0x34,0x81,0x80,0,1,0,1,0,0,0,0};
  memcpy(msg,hdr,12); n=12;
  unsigned char q[]={1,'a',7,'e','x','a','m','p','l','e',0,0,1,0,1};
  memcpy(msg+n,q,sizeof q); n+=sizeof q;
  unsigned char an[]={0xC0,12,0,5,0,1,0,0,1,0x2C,0,0};
  memcpy(msg+n,an,sizeof an); size_t rdlenpos=n+10; n+=sizeof an;
  size_t rdstart=n; msg[n++]=63; for(i=0;i<63;i++) msg[n++]=1; msg[n++]=0xC0; msg[n++]=14;
  msg[rdlenpos]=0; msg[rdlenpos+1]=(unsigned char)(n-rdstart);
  rc=ares_dns_parse(msg,n,0,&rec); printf("parse=%s\n",ares_strerror(rc));
  if(rc) return 2;
  rr=ares_dns_record_rr_get(rec,ARES_SECTION_ANSWER,0);
  printf("cname presentation length=%zu\n", strlen(ares_dns_rr_get_str(rr,ARES_RR_CNAME_CNAME)));
  rc=ares_dns_write(rec,&buf,&len); printf("write=%s\n",ares_strerror(rc));
  dup=ares_dns_record_duplicate(rec); printf("duplicate=%s\n", dup?"ok":"NULL");
  if(rc==0){ ares_dns_record_t *back=NULL; int rc2=ares_dns_parse(buf,len,0,&back); const char *a=ares_dns_rr_get_str(rr,ARES_RR_CNAME_CNAME);
    const char *b=rc2?NULL:ares_dns_rr_get_str(ares_dns_record_rr_get(back,ARES_SECTION_ANSWER,0),ARES_RR_CNAME_CNAME);
    printf("parse back=%s, name %s\n", ares_strerror(rc2), (b&&strcmp(a,b)==0)?"equal":"DIFFERENT"); if(rc2||!b||strcmp(a,b)) rc=1; }
  printf(rc||!dup ? "VIOLATION: a name the parser reports cannot be written back\n" : "ok\n");
  return rc!=0||!dup;}
