/* replay: an OPT RR that carries the same option code more than once (legal: RFC 8914 allows several Extended DNS Error options) is
 * collapsed by the parser, which stores options with the replacing setter ares_dns_rr_set_opt_own(): wire options [15:"AA", 3:"nsid", 15:"BB"]
 * are reported as two options, with the later value in the first option's position.  A reference decoder reports three. */
#include <ares.h>
#include <stdio.h>
#include <string.h>
int main(void)
{
  unsigned char msg[128]; size_t n = 0; ares_dns_record_t *rec = NULL; const ares_dns_rr_t *rr; size_t cnt, i; int rc;
  static const unsigned char hdr[] = { 0x12,0x34,0x81,0x80, 0,1, 0,0, 0,0, 0,1 };
  static const unsigned char q[]   = { 1,'a',7,'e','x','a','m','p','l','e',0, 0,1, 0,1 };
  static const unsigned char opt[] = { 0, 0,41, 0x04,0xD0, 0,0,0,0, 0,20,
                                       0,15, 0,2, 'A','A',   0,3, 0,4, 'n','s','i','d',   0,15, 0,2, 'B','B' };
  memcpy(msg + n, hdr, sizeof hdr); n += sizeof hdr;
  memcpy(msg + n, q, sizeof q);     n += sizeof q;
  memcpy(msg + n, opt, sizeof opt); n += sizeof opt;
  ares_library_init(ARES_LIB_INIT_ALL);
  rc = ares_dns_parse(msg, n, 0, &rec);
  printf("parse = %s\n", ares_strerror(rc));
  if (rc != ARES_SUCCESS) return 2;
  rr  = ares_dns_record_rr_get_const(rec, ARES_SECTION_ADDITIONAL, 0);
  cnt = ares_dns_rr_get_opt_cnt(rr, ARES_RR_OPT_OPTIONS);
  printf("options on the wire: 3 (15:AA 3:nsid 15:BB); reported: %zu\n", cnt);
  for (i = 0; i < cnt; i++) {
    const unsigned char *v; size_t l; unsigned short id = ares_dns_rr_get_opt(rr, ARES_RR_OPT_OPTIONS, i, &v, &l);
    printf("  [%zu] code %u value %.*s\n", i, id, (int)l, (const char *)v);
  }
  printf(cnt == 3 ? "ok\n" : "VIOLATION: the decoded record does not say what the wire says\n");
  return cnt != 3;
}
