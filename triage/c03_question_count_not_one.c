/* replay: a record with 0 or 2 questions (public API) is written successfully and fails to parse back (ARES_EBADRESP) before fix 4d12fbf;
 * after it ares_dns_write reports ARES_EFORMERR. */
#include <ares.h>
#include <stdio.h>
int main(void){
  ares_dns_record_t *rec=NULL,*back=NULL; unsigned char *buf=NULL; size_t len=0; int rc;
  ares_library_init(ARES_LIB_INIT_ALL);
  ares_dns_record_create(&rec, 1, ARES_FLAG_RD, ARES_OPCODE_QUERY, ARES_RCODE_NOERROR);
  rc=ares_dns_write(rec,&buf,&len); printf("0 questions: write=%s len=%zu\n", ares_strerror(rc), len);
  if(rc==ARES_SUCCESS){ rc=ares_dns_parse(buf,len,0,&back); printf("   parse=%s\n", ares_strerror(rc)); ares_dns_record_destroy(back); back=NULL; ares_free_string(buf);}
  ares_dns_record_query_add(rec,"a.example",ARES_REC_TYPE_A,ARES_CLASS_IN);
  ares_dns_record_query_add(rec,"b.example",ARES_REC_TYPE_A,ARES_CLASS_IN);
  rc=ares_dns_write(rec,&buf,&len); printf("2 questions: write=%s len=%zu\n", ares_strerror(rc), len);
  if(rc==ARES_SUCCESS){ rc=ares_dns_parse(buf,len,0,&back); printf("   parse=%s\n", ares_strerror(rc)); ares_dns_record_destroy(back); ares_free_string(buf);}
  return 0;}
