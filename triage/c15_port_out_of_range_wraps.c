/* replay: a port above 65535 in a server entry is narrowed to 16 bits instead of the entry being refused: the malformed entry takes effect
 * with some other port.  Expected: ares_set_servers_csv() reports an error; a resolv.conf nameserver line is ignored. */
#include <ares.h>
#include <stdio.h>
#include <stdlib.h>
#include <string.h>
#include <unistd.h>

int main(void)
{
  const char *bad[] = { "1.2.3.4:99999", "[1.2.3.4]:70000", "dns://1.2.3.4:70000", "dns://1.2.3.4:53?tcpport=99999", "dns://1.2.3.4:53?tcpport=-7" };
  const char *good[] = { "1.2.3.4:65535", "dns://1.2.3.4:53?tcpport=5353" };
  ares_channel_t *ch = NULL; struct ares_options o; size_t i; int viol = 0;
  char path[] = "/tmp/c15port_XXXXXX"; int fd = mkstemp(path); FILE *f;
  close(fd);
  ares_library_init(ARES_LIB_INIT_ALL);
  f = fopen(path, "w"); fputs("nameserver 10.0.0.1\nnameserver 1.2.3.4:99999\n", f); fclose(f);
  memset(&o, 0, sizeof(o)); o.resolvconf_path = path;
  if (ares_init_options(&ch, &o, ARES_OPT_RESOLVCONF) != ARES_SUCCESS) return 2;
  { char *csv = ares_get_servers_csv(ch); printf("resolv.conf with `nameserver 1.2.3.4:99999`: servers = %s\n", csv); if (strstr(csv, "1.2.3.4")) viol++; ares_free_string(csv); }
  for (i = 0; i < sizeof(bad) / sizeof(*bad); i++) {
    int rc = ares_set_servers_csv(ch, bad[i]); char *csv = ares_get_servers_csv(ch);
    printf("set_servers_csv(%-34s) = %-28s servers = %s\n", bad[i], ares_strerror(rc), csv ? csv : "(none)");
    if (rc == ARES_SUCCESS) viol++;
    ares_free_string(csv);
  }
  for (i = 0; i < sizeof(good) / sizeof(*good); i++) {
    int rc = ares_set_servers_csv(ch, good[i]); char *csv = ares_get_servers_csv(ch);
    printf("set_servers_csv(%-34s) = %-28s servers = %s\n", good[i], ares_strerror(rc), csv ? csv : "(none)");
    if (rc != ARES_SUCCESS) viol++;
    ares_free_string(csv);
  }
  ares_destroy(ch); ares_library_cleanup(); unlink(path);
  printf(viol ? "VIOLATION: %d out-of-range port(s) took effect\n" : "ok\n", viol);
  return viol != 0;
}
