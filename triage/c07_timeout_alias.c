/* C07: "never later than the caller's own maximum".  ares_timeout(channel, &tv, &tv) (same struct for maxtv and tvbuf) fills tvbuf with
 * the remaining time before it reads maxtv, so the caller's maximum is lost and the hint can be later than it. */
#include "vs.h"
static void cb(void*arg, ares_status_t st, size_t to, const ares_dns_record_t*r){ (void)arg;(void)st;(void)to;(void)r; }
static ares_ssize_t s_sendto(ares_socket_t s,const void*b,size_t l,int f,const struct sockaddr*a,ares_socklen_t al,void*u){ (void)s;(void)b;(void)f;(void)a;(void)al;(void)u; return (ares_ssize_t)l; }
int main(void){ ares_channel_t*ch; struct ares_options o; struct timeval tv,*r; memset(&o,0,sizeof o); ares_library_init(ARES_LIB_INIT_ALL);
  o.tries=1; o.timeout=5000; o.qcache_max_ttl=0;
  if(ares_init_options(&ch,&o,ARES_OPT_TRIES|ARES_OPT_TIMEOUTMS|ARES_OPT_QUERY_CACHE)!=ARES_SUCCESS) return 2;
  VS.asendto=s_sendto; ares_set_socket_functions_ex(ch,&VS,NULL); ares_set_servers_csv(ch,"127.0.0.1");
  ares_query_dnsrec(ch,"a.example.com",ARES_CLASS_IN,ARES_REC_TYPE_A,cb,NULL,NULL);
  tv.tv_sec=0; tv.tv_usec=1000; r=ares_timeout(ch,&tv,&tv);
  printf("maximum 1 ms, hint = %ld.%06ld s\n",(long)r->tv_sec,(long)r->tv_usec);
  int ok = r->tv_sec==0 && r->tv_usec<=1000; printf("%s\n", ok?"hint within the caller's maximum":"hint LATER than the caller's maximum");
  ares_destroy(ch); ares_library_cleanup(); return ok?0:1; }
