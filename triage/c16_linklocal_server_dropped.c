/* C16: a link-local server (address + interface) set through the CSV setter must read back.  ares_set_socket_functions_ex()
 * copies the function table member by member and omits aif_nametoindex/aif_indextoname, also for the built-in defaults, so
 * ares_sconfig_linklocal() can never resolve the interface and every fe80::/10 server is silently dropped. */
#include <ares.h>
#include <stdio.h>
#include <string.h>
int main(void){ ares_channel_t*ch; struct ares_options o; char*csv; int rc, ok; memset(&o,0,sizeof o); ares_library_init(ARES_LIB_INIT_ALL);
  if(ares_init_options(&ch,&o,0)!=ARES_SUCCESS) return 2;
  rc=ares_set_servers_csv(ch,"[fe80::1]:53%lo,192.0.2.7");
  csv=ares_get_servers_csv(ch); printf("set rc=%d, read back: %s\n",rc,csv?csv:"(null)");
  ok = csv && strstr(csv,"fe80::1")!=NULL; ares_free_string(csv); ares_destroy(ch); ares_library_cleanup();
  printf("%s\n", ok?"link-local server kept":"link-local server LOST"); return ok?0:1; }
