/* replay: an answer section that holds records, none of them of the parser's type (only a CNAME): the list parsers (mx, srv, naptr, caa, txt,
 * uri) return ARES_SUCCESS and a NULL list instead of the documented ARES_ENODATA ("the response did not contain an answer to the query"). */
#include <ares.h>
#include <stdio.h>
#include <string.h>

static unsigned char *mk(ares_dns_rec_type_t qtype, size_t *len)
{
  ares_dns_record_t *rec = NULL; ares_dns_rr_t *rr = NULL; unsigned char *buf = NULL;
  ares_dns_record_create(&rec, 0x1234, ARES_FLAG_QR | ARES_FLAG_RD | ARES_FLAG_RA, ARES_OPCODE_QUERY, ARES_RCODE_NOERROR);
  ares_dns_record_query_add(rec, "alias.example.com", qtype, ARES_CLASS_IN);
  ares_dns_record_rr_add(&rr, rec, ARES_SECTION_ANSWER, "alias.example.com", ARES_REC_TYPE_CNAME, ARES_CLASS_IN, 300);
  ares_dns_rr_set_str(rr, ARES_RR_CNAME_CNAME, "target.example.com");
  ares_dns_write(rec, &buf, len);
  ares_dns_record_destroy(rec);
  return buf;
}

int main(void)
{
  int viol = 0; size_t len; unsigned char *m; int rc;
  ares_library_init(ARES_LIB_INIT_ALL);
#define TRY(NAME, QT, TYPE, CALL) do { TYPE *out = (TYPE *)0x1; m = mk(QT, &len); rc = CALL; \
    printf("%-24s -> %-40s result=%p\n", NAME, ares_strerror(rc), (void *)out); \
    if (rc == ARES_SUCCESS && out == NULL) viol++; if (rc == ARES_SUCCESS && out) ares_free_data(out); ares_free_string(m); } while (0)
  TRY("ares_parse_mx_reply",    ARES_REC_TYPE_MX,    struct ares_mx_reply,    ares_parse_mx_reply(m, (int)len, &out));
  TRY("ares_parse_srv_reply",   ARES_REC_TYPE_SRV,   struct ares_srv_reply,   ares_parse_srv_reply(m, (int)len, &out));
  TRY("ares_parse_naptr_reply", ARES_REC_TYPE_NAPTR, struct ares_naptr_reply, ares_parse_naptr_reply(m, (int)len, &out));
  TRY("ares_parse_caa_reply",   ARES_REC_TYPE_CAA,   struct ares_caa_reply,   ares_parse_caa_reply(m, (int)len, &out));
  TRY("ares_parse_txt_reply",   ARES_REC_TYPE_TXT,   struct ares_txt_reply,   ares_parse_txt_reply(m, (int)len, &out));
  TRY("ares_parse_txt_reply_ext", ARES_REC_TYPE_TXT, struct ares_txt_ext,     ares_parse_txt_reply_ext(m, (int)len, &out));
  TRY("ares_parse_uri_reply",   ARES_REC_TYPE_URI,   struct ares_uri_reply,   ares_parse_uri_reply(m, (int)len, &out));
  printf(viol ? "VIOLATION: %d parser(s) reported success with nothing to hand out\n" : "ok\n", viol);
  ares_library_cleanup();
  return viol != 0;
}
