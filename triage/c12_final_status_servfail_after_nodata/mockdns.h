/* Minimal single-threaded loopback mock DNS server + event loop helper used by
 * the demonstrations.  UDP only, answers according to a small rule table and
 * records every question name it sees, in order. */
#ifndef MOCKDNS_H
#define MOCKDNS_H

#include <ares.h>
#include <arpa/inet.h>
#include <netinet/in.h>
#include <stdio.h>
#include <stdlib.h>
#include <string.h>
#include <strings.h>
#include <sys/select.h>
#include <sys/socket.h>
#include <sys/time.h>
#include <time.h>
#include <unistd.h>

#define MOCK_NOERROR  0
#define MOCK_SERVFAIL 2
#define MOCK_NXDOMAIN 3
#define MOCK_REFUSED  5

struct mock_rule {
  const char *name;   /* question name, no trailing dot, case-insensitive */
  int         rcode;  /* MOCK_* */
  int         answer; /* 1 = include an A record 10.9.8.7 (only for A queries) */
};

static int                     mock_fd   = -1;
static unsigned short          mock_port = 0;
static const struct mock_rule *mock_rules;
static size_t                  mock_nrules;
static char                    mock_seen[64][300];
static size_t                  mock_nseen;

static int mock_start(const struct mock_rule *rules, size_t nrules)
{
  struct sockaddr_in sa;
  socklen_t          slen = sizeof(sa);

  mock_rules  = rules;
  mock_nrules = nrules;
  mock_nseen  = 0;
  mock_fd     = socket(AF_INET, SOCK_DGRAM, 0);
  if (mock_fd < 0) {
    return -1;
  }
  memset(&sa, 0, sizeof(sa));
  sa.sin_family      = AF_INET;
  sa.sin_addr.s_addr = htonl(INADDR_LOOPBACK);
  sa.sin_port        = 0;
  if (bind(mock_fd, (struct sockaddr *)&sa, sizeof(sa)) != 0) {
    return -1;
  }
  if (getsockname(mock_fd, (struct sockaddr *)&sa, &slen) != 0) {
    return -1;
  }
  mock_port = ntohs(sa.sin_port);
  return 0;
}

/* Record a name only once per consecutive run (A and AAAA, retries) */
static void mock_record(const char *name)
{
  if (mock_nseen > 0 && strcasecmp(mock_seen[mock_nseen - 1], name) == 0) {
    return;
  }
  if (mock_nseen < 64) {
    snprintf(mock_seen[mock_nseen++], sizeof(mock_seen[0]), "%s", name);
  }
}

static void mock_serve_one(void)
{
  unsigned char           req[1500];
  unsigned char           rsp[1600];
  struct sockaddr_storage from;
  socklen_t               fromlen = sizeof(from);
  ssize_t                 n;
  size_t                  pos = 12;
  size_t                  i;
  size_t                  rlen;
  char                    name[300] = "";
  size_t                  nlen      = 0;
  unsigned int            qtype;
  int                     rcode  = MOCK_NXDOMAIN;
  int                     answer = 0;

  n = recvfrom(mock_fd, req, sizeof(req), 0, (struct sockaddr *)&from,
               &fromlen);
  if (n < 17) {
    return;
  }
  while (pos < (size_t)n && req[pos] != 0) {
    size_t l = req[pos++];
    if (l > 63 || pos + l > (size_t)n || nlen + l + 2 > sizeof(name)) {
      return;
    }
    if (nlen) {
      name[nlen++] = '.';
    }
    memcpy(name + nlen, req + pos, l);
    nlen += l;
    pos  += l;
  }
  name[nlen] = 0;
  pos++; /* root label */
  if (pos + 4 > (size_t)n) {
    return;
  }
  qtype  = (unsigned int)(req[pos] << 8 | req[pos + 1]);
  pos   += 4;

  mock_record(name);

  for (i = 0; i < mock_nrules; i++) {
    if (strcasecmp(mock_rules[i].name, name) == 0) {
      rcode  = mock_rules[i].rcode;
      answer = mock_rules[i].answer && qtype == 1;
      break;
    }
  }

  memcpy(rsp, req, pos);
  rsp[2]  = (unsigned char)(0x80 | 0x04 | (req[2] & 0x01)); /* QR AA RD */
  rsp[3]  = (unsigned char)(0x80 | rcode);                  /* RA rcode */
  rsp[4]  = 0;
  rsp[5]  = 1;
  rsp[6]  = 0;
  rsp[7]  = (unsigned char)(answer ? 1 : 0);
  rsp[8]  = 0;
  rsp[9]  = 0;
  rsp[10] = 0;
  rsp[11] = 0;
  rlen    = pos;
  if (answer) {
    static const unsigned char rr[] = { 0xC0, 0x0C, 0, 1, 0,  1, 0, 0,
                                        0,    60,   0, 4, 10, 9, 8, 7 };
    memcpy(rsp + rlen, rr, sizeof(rr));
    rlen += sizeof(rr);
  }
  sendto(mock_fd, rsp, rlen, 0, (struct sockaddr *)&from, fromlen);
}

/* Drive the channel and the mock server until *done or ~15s elapsed */
static void mock_run(ares_channel_t *channel, const int *done)
{
  time_t start = time(NULL);
  while (!*done && time(NULL) - start < 15) {
    fd_set          rfds;
    fd_set          wfds;
    int             nfds;
    struct timeval  maxtv = { 0, 100000 };
    struct timeval  tv;
    struct timeval *tvp;

    FD_ZERO(&rfds);
    FD_ZERO(&wfds);
    nfds = ares_fds(channel, &rfds, &wfds);
    FD_SET(mock_fd, &rfds);
    if (mock_fd >= nfds) {
      nfds = mock_fd + 1;
    }
    tvp = ares_timeout(channel, &maxtv, &tv);
    select(nfds, &rfds, &wfds, NULL, tvp);
    if (FD_ISSET(mock_fd, &rfds)) {
      mock_serve_one();
      FD_CLR(mock_fd, &rfds);
    }
    ares_process(channel, &rfds, &wfds);
  }
}

static void mock_print_seen(void)
{
  size_t i;
  printf("  candidates queried, in order:");
  for (i = 0; i < mock_nseen; i++) {
    printf(" [%s]", mock_seen[i]);
  }
  printf("\n");
}

/* Compare the recorded candidate sequence against the expected one */
static int mock_check_seen(const char *const *expect, size_t nexpect)
{
  size_t i;
  if (mock_nseen != nexpect) {
    return 0;
  }
  for (i = 0; i < nexpect; i++) {
    if (strcasecmp(mock_seen[i], expect[i]) != 0) {
      return 0;
    }
  }
  return 1;
}

static int mock_set_server(ares_channel_t *channel)
{
  char csv[64];
  snprintf(csv, sizeof(csv), "127.0.0.1:%u", (unsigned int)mock_port);
  return ares_set_servers_ports_csv(channel, csv);
}

#endif
