/* C12 triage: "reports no-data if any candidate existed without data, else the last candidate's status".
 * Search list [first.com], ndots 1, name "host": candidates host.first.com (NOERROR, no answers = no-data), then "host" (single label,
 * SERVFAIL = soft for single labels).  No candidate gave data or a hard error, one existed without data: expected ARES_ENODATA from both
 * walkers (ares_search and ares_getaddrinfo). */
#include "mockdns.h"

struct result { int done; int status; };

static void rec_cb(void *arg, ares_status_t status, size_t timeouts, const ares_dns_record_t *rec)
{
  struct result *r = arg; (void)timeouts; (void)rec;
  r->done = 1; r->status = (int)status;
}
static void ai_cb(void *arg, int status, int timeouts, struct ares_addrinfo *ai)
{
  struct result *r = arg; (void)timeouts;
  r->done = 1; r->status = status;
  if (ai) ares_freeaddrinfo(ai);
}

static const struct mock_rule rules[] = {
  { "host.first.com", MOCK_NOERROR,  0 },   /* exists, no data */
  { "host",           MOCK_SERVFAIL, 0 },   /* systemd-resolved style soft failure on a single label */
};

static ares_channel_t *mk(void)
{
  ares_channel_t     *channel = NULL;
  struct ares_options opts;
  char *domains[] = { (char *)"first.com" };
  char  lookups[] = "b";
  memset(&opts, 0, sizeof(opts));
  opts.domains = domains; opts.ndomains = 1; opts.ndots = 1; opts.lookups = lookups; opts.tries = 1; opts.timeout = 1000;
  if (ares_init_options(&channel, &opts, ARES_OPT_DOMAINS | ARES_OPT_NDOTS | ARES_OPT_LOOKUPS | ARES_OPT_TRIES | ARES_OPT_TIMEOUTMS) != ARES_SUCCESS ||
      mock_set_server(channel) != ARES_SUCCESS) { fprintf(stderr, "setup failed\n"); exit(2); }
  return channel;
}

int main(void)
{
  int ok = 1;
  struct result r1 = { 0, -1 }, r2 = { 0, -1 };
  ares_channel_t *ch;
  ares_dns_record_t *req = NULL;
  struct ares_addrinfo_hints hints;

  if (ares_library_init(ARES_LIB_INIT_ALL) != ARES_SUCCESS) return 2;
  unsetenv("HOSTALIASES");
  if (mock_start(rules, sizeof(rules) / sizeof(rules[0])) != 0) return 2;

  ch = mk();
  ares_dns_record_create(&req, 0, ARES_FLAG_RD, ARES_OPCODE_QUERY, ARES_RCODE_NOERROR);
  ares_dns_record_query_add(req, "host", ARES_REC_TYPE_A, ARES_CLASS_IN);
  mock_nseen = 0;
  ares_search_dnsrec(ch, req, rec_cb, &r1);
  mock_run(ch, &r1.done);
  printf("ares_search_dnsrec: %s\n", ares_strerror(r1.status)); mock_print_seen();
  ares_dns_record_destroy(req);
  ares_destroy(ch);

  ch = mk();
  memset(&hints, 0, sizeof(hints)); hints.ai_family = AF_INET; hints.ai_flags = ARES_AI_NOSORT;
  mock_nseen = 0;
  ares_getaddrinfo(ch, "host", NULL, &hints, ai_cb, &r2);
  mock_run(ch, &r2.done);
  printf("ares_getaddrinfo:   %s\n", ares_strerror(r2.status)); mock_print_seen();
  ares_destroy(ch);

  ok = r1.status == ARES_ENODATA && r2.status == ARES_ENODATA;
  printf(ok ? "PASS\n" : "FAIL: a candidate existed without data and no candidate gave data or a hard error, yet the result is not ARES_ENODATA\n");
  ares_library_cleanup();
  return ok ? 0 : 1;
}
