/* C14: parsing an EMPTY DNS character-string allocates only when the result is finished; if that one allocation fails,
 * ares_buf_parse_dns_binstr_int() stored NULL in *bin and still returned success: ares_expand_string() reports
 * ARES_SUCCESS with *s == NULL. */
#include <ares.h>
#include <stdio.h>
#include <stdlib.h>
static long count=0, failat=0;
static void *m(size_t n){ count++; if(failat && count==failat) return NULL; return malloc(n); }
static void f(void*p){ free(p); }
static void *r(void*p,size_t n){ count++; if(failat && count==failat) return NULL; return realloc(p,n); }
int main(void){ unsigned char msg[]={0}; int bad=0; long n;
  for(n=1;n<8;n++){ unsigned char*s=(unsigned char*)1; long len=0; int rc;
    ares_library_init_mem(ARES_LIB_INIT_ALL,m,f,r); count=0; failat=n;
    rc=ares_expand_string(msg,msg,1,&s,&len); failat=0;
    if(rc==ARES_SUCCESS && s==NULL){ printf("allocation %ld fails: ARES_SUCCESS with a NULL string\n",n); bad++; }
    if(rc==ARES_SUCCESS && s) ares_free_string(s);
    ares_library_cleanup(); }
  printf("%d bad outcome(s)\n",bad); return bad?1:0; }
