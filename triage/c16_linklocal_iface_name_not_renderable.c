/* replay: a link-local server on an interface whose name is not purely alphanumeric ("br-lan", "eth0.10" -- both accepted by the plain
 * server-list syntax, whose interface charset includes ".-_") and UDP/TCP ports that differ (here through ARES_OPT_UDP_PORT /
 * ARES_OPT_TCP_PORT) must be rendered in the dns:// URI form, and ares_uri_set_host() accepts alphanumeric zone names only:
 * ares_get_servers_csv() returns NULL and ares_dup() fails.  The interface is made to exist through custom socket functions. */
#include <ares.h>
#include <stdio.h>
#include <string.h>
#include <unistd.h>
#include <fcntl.h>
#include <sys/socket.h>

static ares_socket_t f_socket(int d, int t, int p, void *u) { int s = socket(d, t, p); (void)u; if (s >= 0) fcntl(s, F_SETFL, O_NONBLOCK); return s; }
static int f_close(ares_socket_t s, void *u) { (void)u; return close(s); }
static int f_setsockopt(ares_socket_t s, ares_socket_opt_t o, const void *v, ares_socklen_t l, void *u) { (void)s; (void)o; (void)v; (void)l; (void)u; return 0; }
static int f_connect(ares_socket_t s, const struct sockaddr *a, ares_socklen_t l, unsigned int fl, void *u) { (void)fl; (void)u; return connect(s, a, l); }
static ares_ssize_t f_recvfrom(ares_socket_t s, void *b, size_t n, int fl, struct sockaddr *a, ares_socklen_t *l, void *u) { (void)u; return recvfrom(s, b, n, fl, a, l); }
static ares_ssize_t f_sendto(ares_socket_t s, const void *b, size_t n, int fl, const struct sockaddr *a, ares_socklen_t l, void *u) { (void)u; return sendto(s, b, n, fl, a, l); }
static int f_getsockname(ares_socket_t s, struct sockaddr *a, ares_socklen_t *l, void *u) { (void)u; return getsockname(s, a, l); }
static int f_bind(ares_socket_t s, unsigned int fl, const struct sockaddr *a, socklen_t l, void *u) { (void)fl; (void)u; return bind(s, a, l); }
static unsigned int f_nametoindex(const char *n, void *u) { (void)u; return strcmp(n, "br-lan") == 0 ? 7 : strcmp(n, "eth0") == 0 ? 8 : 0; }
static const char *f_indextoname(unsigned int i, char *b, size_t l, void *u) { (void)u; snprintf(b, l, "%s", i == 7 ? "br-lan" : i == 8 ? "eth0" : ""); return (i == 7 || i == 8) ? b : NULL; }

static int try(const char *server)
{
  ares_channel_t *ch = NULL, *dup = NULL; struct ares_options o; struct ares_socket_functions_ex f; char *csv; int rc, bad = 0;
  memset(&o, 0, sizeof(o)); o.udp_port = 53; o.tcp_port = 5353;
  if (ares_init_options(&ch, &o, ARES_OPT_UDP_PORT | ARES_OPT_TCP_PORT) != ARES_SUCCESS) return 2;
  memset(&f, 0, sizeof(f)); f.version = 1; f.asocket = f_socket; f.aclose = f_close; f.asetsockopt = f_setsockopt; f.aconnect = f_connect;
  f.arecvfrom = f_recvfrom; f.asendto = f_sendto; f.agetsockname = f_getsockname; f.abind = f_bind; f.aif_nametoindex = f_nametoindex; f.aif_indextoname = f_indextoname;
  if (ares_set_socket_functions_ex(ch, &f, NULL) != ARES_SUCCESS) return 2;
  rc = ares_set_servers_csv(ch, server);
  csv = ares_get_servers_csv(ch);
  printf("set_servers_csv(%s) = %s; get_servers_csv = %s; ", server, ares_strerror(rc), csv ? csv : "NULL");
  if (rc == ARES_SUCCESS && csv == NULL) bad = 1;
  ares_free_string(csv);
  rc = ares_dup(&dup, ch);
  printf("ares_dup = %s\n", ares_strerror(rc));
  if (rc != ARES_SUCCESS) bad = 1; else ares_destroy(dup);
  ares_destroy(ch);
  return bad;
}

int main(void)
{
  int bad = 0;
  ares_library_init(ARES_LIB_INIT_ALL);
  bad |= try("fe80::1%eth0");      /* control: alphanumeric interface */
  bad |= try("fe80::1%br-lan");
  printf(bad ? "VIOLATION: a configured server cannot be rendered / the channel cannot be duplicated\n" : "ok\n");
  ares_library_cleanup();
  return bad;
}
