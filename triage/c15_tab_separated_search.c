/* replay: resolv.conf(5) separates the words of a directive's value by spaces or tabs.  The value of a line was fetched through
 * ares_buf_tag_fetch_string(), which rejects every non-printable byte including TAB, so a line such as "search a.example<TAB>b.example"
 * or "sortlist 172.16.0.0/12<TAB>10.0.0.0/8" was ignored as a whole.
 * Observation: the names a search for "host" puts on the wire (captured on a local UDP socket), and the order of the two addresses of
 * "h" from a hosts file (10.1.1.1 first iff the sortlist is in effect). */
#include <ares.h>
#include <arpa/inet.h>
#include <netdb.h>
#include <netinet/in.h>
#include <stdio.h>
#include <stdlib.h>
#include <string.h>
#include <sys/select.h>
#include <sys/socket.h>
#include <unistd.h>

static int first_is_10 = -1;
static void hcb(void *arg, int st, int to, struct hostent *h) { (void)arg; (void)to; if (st == ARES_SUCCESS && h->h_addr_list[0]) { char b[64]; inet_ntop(AF_INET, h->h_addr_list[0], b, sizeof(b)); first_is_10 = (strncmp(b, "10.", 3) == 0); printf("first address of h: %s\n", b); } }
static int done; static void scb(void *arg, int st, int to, unsigned char *a, int l) { (void)arg; (void)st; (void)to; (void)a; (void)l; done = 1; }

int main(void)
{
  ares_channel_t *ch = NULL; struct ares_options o; char rpath[] = "/tmp/c15tab_resolvXXXXXX", hpath[] = "/tmp/c15tab_hostsXXXXXX";
  int fd, s, bad = 0, i, saw_first = 0, saw_second = 0; struct sockaddr_in a; socklen_t al = sizeof(a); char csv[64];
  const char *conf = "nameserver 192.0.2.53\nsearch first.example\tsecond.example\nsortlist 172.16.0.0/12\t10.0.0.0/8\noptions ndots:2\ttimeout:1\n";
  const char *hosts = "192.168.1.1 h\n10.1.1.1 h\n";
  fd = mkstemp(rpath); if (write(fd, conf, strlen(conf)) < 0) return 2; close(fd);
  fd = mkstemp(hpath); if (write(fd, hosts, strlen(hosts)) < 0) return 2; close(fd);
  s = socket(AF_INET, SOCK_DGRAM, 0); memset(&a, 0, sizeof(a)); a.sin_family = AF_INET; a.sin_addr.s_addr = htonl(INADDR_LOOPBACK);
  bind(s, (struct sockaddr *)&a, sizeof(a)); getsockname(s, (struct sockaddr *)&a, &al);
  ares_library_init(ARES_LIB_INIT_ALL);
  memset(&o, 0, sizeof(o)); o.resolvconf_path = rpath; o.hosts_path = hpath; o.tries = 1;
  if (ares_init_options(&ch, &o, ARES_OPT_RESOLVCONF | ARES_OPT_HOSTS_FILE | ARES_OPT_TRIES) != ARES_SUCCESS) return 2;
  snprintf(csv, sizeof(csv), "127.0.0.1:%d", ntohs(a.sin_port)); ares_set_servers_ports_csv(ch, csv);
  ares_gethostbyname(ch, "h", AF_INET, hcb, NULL);
  ares_search(ch, "host", 1, 1, scb, NULL);
  for (i = 0; i < 200 && !done; i++) {
    fd_set r, w; struct timeval tv, *tvp; int n; unsigned char pkt[512]; struct sockaddr_in from; socklen_t fl = sizeof(from); ssize_t got;
    FD_ZERO(&r); FD_ZERO(&w); n = ares_fds(ch, &r, &w); tvp = ares_timeout(ch, NULL, &tv);
    if (tvp == NULL || tvp->tv_sec > 0 || tvp->tv_usec > 20000) { tv.tv_sec = 0; tv.tv_usec = 20000; tvp = &tv; }
    select(n, &r, &w, NULL, tvp); ares_process(ch, &r, &w);
    while ((got = recvfrom(s, pkt, sizeof(pkt), MSG_DONTWAIT, (struct sockaddr *)&from, &fl)) > 12) {
      char name[256] = ""; size_t p = 12, q = 0;
      while (p < (size_t)got && pkt[p] && q + pkt[p] + 1 < sizeof(name)) { memcpy(name + q, pkt + p + 1, pkt[p]); q += pkt[p]; name[q++] = '.'; p += pkt[p] + 1; }
      name[q] = 0; printf("query on the wire: %s\n", name);
      if (strcmp(name, "host.first.example.") == 0) saw_first = 1;
      if (strcmp(name, "host.second.example.") == 0) saw_second = 1;
      pkt[2] |= 0x80; pkt[3] = 0x83; sendto(s, pkt, (size_t)got, 0, (struct sockaddr *)&from, fl);   /* NXDOMAIN: go on to the next candidate */
    }
  }
  if (!saw_first || !saw_second) { printf("VIOLATION: tab-separated search line not honoured (first=%d second=%d)\n", saw_first, saw_second); bad = 1; }
  if (first_is_10 != 1) { printf("VIOLATION: tab-separated sortlist line not honoured\n"); bad = 1; }
  ares_destroy(ch); ares_library_cleanup(); unlink(rpath); unlink(hpath); close(s);
  if (!bad) printf("ok\n");
  return bad;
}
