/* scripted in-process virtual socket layer: per-socket reply queue, optional send failure */
#include <ares.h>
#include <stdio.h>
#include <string.h>
#include <stdlib.h>
#include <errno.h>
#include <unistd.h>
#include <netinet/in.h>
#define MAXS 16
static unsigned char lastq[MAXS][600]; static size_t lastq_len[MAXS]; static int pending[MAXS]; static int rcode_next=0; static unsigned int peer[MAXS]; static int nsock=0; static int fail_send_after=-1; static int sends=0; static int silent=0;
static ares_socket_t v_socket(int d,int t,int p,void*u){ return 100+nsock++; }
static int v_close(ares_socket_t s,void*u){ printf("  [vs] close(%d)\n",(int)s); fflush(stdout); return 0; }
static int v_setsockopt(ares_socket_t s, ares_socket_opt_t o, const void*v, ares_socklen_t l, void*u){ return 0; }
static int v_connect(ares_socket_t s,const struct sockaddr*a,ares_socklen_t l,unsigned int f,void*u){ peer[s-100]=((const struct sockaddr_in*)a)->sin_addr.s_addr; return 0; }
static ares_ssize_t v_sendto(ares_socket_t s,const void*b,size_t l,int f,const struct sockaddr*a,ares_socklen_t al,void*u){ sends++; if(fail_send_after>=0 && sends>fail_send_after){ printf("  [vs] send #%d on %d FAILS (ECONNREFUSED)\n",sends,(int)s); fflush(stdout); errno=ECONNREFUSED; return -1;} memcpy(lastq[s-100],b,l); lastq_len[s-100]=l; if(!silent) pending[s-100]++; return (ares_ssize_t)l; }
static ares_ssize_t v_recvfrom(ares_socket_t s,void*b,size_t l,int f,struct sockaddr*a,ares_socklen_t*al,void*u){ int i=s-100; if(pending[i]<=0){ errno=EWOULDBLOCK; return -1;} pending[i]--;
  unsigned char*r=b; memcpy(r,lastq[i],lastq_len[i]); r[2]=0x81;r[3]=0x80|(rcode_next&0xf);r[6]=0;r[7]=(rcode_next==0);r[10]=0;r[11]=0; size_t k=12; while(r[k]) k+=r[k]+1; k+=5; if(rcode_next==0){ unsigned char rr[]={0xc0,0x0c,0,1,0,1,0,0,1,0x2c,0,4,9,9,9,9}; memcpy(r+k,rr,sizeof rr); k+=sizeof rr; }
  if(a&&al){ struct sockaddr_in*sin=(struct sockaddr_in*)a; memset(sin,0,sizeof *sin); sin->sin_family=AF_INET; sin->sin_addr.s_addr=peer[i]; sin->sin_port=htons(53); *al=sizeof *sin;} return (ares_ssize_t)k; }
static int v_getsockname(ares_socket_t s,struct sockaddr*a,ares_socklen_t*al,void*u){ struct sockaddr_in*sin=(struct sockaddr_in*)a; memset(sin,0,sizeof *sin); sin->sin_family=AF_INET; sin->sin_addr.s_addr=htonl(0x7f000001); *al=sizeof *sin; return 0; }
static struct ares_socket_functions_ex VS={1,ARES_SOCKFUNC_FLAG_NONBLOCKING,v_socket,v_close,v_setsockopt,v_connect,v_recvfrom,v_sendto,v_getsockname,NULL,NULL,NULL};
