/* C15: "unrecognised or malformed lines change nothing".  usage: c15_junk_lines <resolv.conf> <hosts> ; prints the servers taken from the
 * file and the order in which the two addresses of host "h" come back (10.1.1.1 first iff `sortlist 10.0.0.0/8` is in effect) */
#include <ares.h>
#include <stdio.h>
#include <string.h>
#include <netdb.h>
#include <arpa/inet.h>
static void hcb(void*arg,int st,int to,struct hostent*h){ int i; char b[64]; (void)arg;(void)to; if(st!=ARES_SUCCESS){printf("host lookup: %s\n",ares_strerror(st));return;} printf("addresses of h:"); for(i=0;h->h_addr_list[i];i++) printf(" %s",inet_ntop(AF_INET,h->h_addr_list[i],b,sizeof b)); printf("\n"); }
int main(int argc,char**argv){ ares_channel_t *ch; struct ares_options o; int rc; (void)argc; memset(&o,0,sizeof o); ares_library_init(ARES_LIB_INIT_ALL);
 o.resolvconf_path=argv[1]; o.hosts_path=argv[2]; o.lookups=(char*)"f"; rc=ares_init_options(&ch,&o,ARES_OPT_RESOLVCONF|ARES_OPT_HOSTS_FILE|ARES_OPT_LOOKUPS); if(rc!=ARES_SUCCESS){ printf("init failed: %s\n",ares_strerror(rc)); return 2; }
 char*csv=ares_get_servers_csv(ch); printf("servers=%s\n",csv?csv:"(null)"); ares_free_string(csv);
 ares_gethostbyname(ch,"h",AF_INET,hcb,NULL);
 ares_destroy(ch); ares_library_cleanup(); return 0; }
