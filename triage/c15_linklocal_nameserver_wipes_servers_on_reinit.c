/* replay (reported by an independent seeding sub-agent, fifth round): a resolv.conf line `nameserver fe80::1` (link-local address without an
 * interface) is documented as "silently ignored", but ares_sconfig_append() has already created the (empty) server list when it decides to
 * ignore the entry.  ares_sysconfig_apply() then applies that empty list: on ares_reinit() every server the channel had is removed.  With
 * `nameserver bogus` (or no nameserver line at all) the servers are kept.  Expected: the ignored line changes nothing. */
#include <ares.h>
#include <stdio.h>
#include <stdlib.h>
#include <string.h>
#include <unistd.h>

static void put(const char *path, const char *txt) { FILE *f = fopen(path, "w"); fputs(txt, f); fclose(f); }

static char *run(const char *second)
{
  ares_channel_t *ch = NULL; struct ares_options o; char path[] = "/tmp/c15ll2_XXXXXX"; int fd = mkstemp(path); char *csv, *out;
  close(fd);
  put(path, "nameserver 10.9.8.7\n");
  memset(&o, 0, sizeof(o)); o.resolvconf_path = path;
  if (ares_init_options(&ch, &o, ARES_OPT_RESOLVCONF) != ARES_SUCCESS) exit(2);
  put(path, second);
  if (ares_reinit(ch) != ARES_SUCCESS) exit(2);
  usleep(300000);   /* the reload runs in a background thread */
  csv = ares_get_servers_csv(ch);
  out = strdup(csv ? csv : "(none)");
  ares_free_string(csv);
  ares_destroy(ch); unlink(path);
  return out;
}

int main(void)
{
  char *a, *b, *c; int bad;
  ares_library_init(ARES_LIB_INIT_ALL);
  a = run("options ndots:2\n");                         /* no nameserver line at all */
  b = run("nameserver bogus\noptions ndots:2\n");       /* junk nameserver line */
  c = run("nameserver fe80::1\noptions ndots:2\n");     /* ignored link-local line */
  printf("no nameserver line : %s\nnameserver bogus   : %s\nnameserver fe80::1 : %s\n", a, b, c);
  bad = strcmp(a, c) != 0 || strcmp(a, b) != 0;
  printf(bad ? "VIOLATION: the ignored line changed the server list\n" : "ok\n");
  ares_library_cleanup();
  return bad;
}
