#include <ares.h>
#include <stdio.h>
#include <string.h>
#include <netinet/in.h>
typedef struct ares_buf ares_buf_t; typedef struct ares_array ares_array_t;
ares_buf_t *ares_buf_create(void); size_t ares_buf_len(const ares_buf_t*); const unsigned char *ares_buf_peek(const ares_buf_t*, size_t*);
ares_status_t ares_dns_write_buf_tcp(const ares_dns_record_t*, ares_buf_t*); void ares_buf_destroy(ares_buf_t*);
ares_array_t *ares_array_create(size_t, void(*)(void*)); ares_status_t ares_array_insertdata_first(ares_array_t*, const void*); ares_status_t ares_array_insertdata_last(ares_array_t*, const void*); void *ares_array_at(ares_array_t*, size_t); size_t ares_array_len(const ares_array_t*);
int main(void){
  ares_library_init(ARES_LIB_INIT_ALL);
  /* C03: compression offsets with TCP prefix */
  ares_dns_record_t *rec=NULL; ares_dns_rr_t *rr=NULL; struct in_addr a; a.s_addr=htonl(0x01020304);
  ares_dns_record_create(&rec, 0x1234, ARES_FLAG_QR, ARES_OPCODE_QUERY, ARES_RCODE_NOERROR);
  ares_dns_record_query_add(rec, "example.com", ARES_REC_TYPE_A, ARES_CLASS_IN);
  ares_dns_record_rr_add(&rr, rec, ARES_SECTION_ANSWER, "b.example.com", ARES_REC_TYPE_A, ARES_CLASS_IN, 60);
  ares_dns_rr_set_addr(rr, ARES_RR_A_ADDR, &a);
  ares_buf_t *b=ares_buf_create(); ares_status_t st=ares_dns_write_buf_tcp(rec,b); size_t len; const unsigned char *p=ares_buf_peek(b,&len);
  printf("write_buf_tcp status=%d len=%zu\n",st,len);
  ares_dns_record_t *back=NULL; st=ares_dns_parse(p+2,len-2,0,&back);
  printf("re-parse of framed message body: status=%d (%s)\n",st,ares_strerror(st));
  if(back){ const ares_dns_rr_t*r2=ares_dns_record_rr_get_const(back,ARES_SECTION_ANSWER,0); printf("  answer owner parsed back as '%s' (wrote 'b.example.com')\n", ares_dns_rr_get_name(r2)); }
  /* compare with unframed */
  unsigned char *ub; size_t ul; ares_dns_write(rec,&ub,&ul); ares_dns_record_t *back2=NULL; st=ares_dns_parse(ub,ul,0,&back2);
  printf("unframed: status=%d owner='%s'\n",st, back2?ares_dns_rr_get_name(ares_dns_record_rr_get_const(back2,ARES_SECTION_ANSWER,0)):"-");
  /* C19 */
  ares_array_t *arr=ares_array_create(sizeof(int),NULL); int v1=1,v2=2; ares_array_insertdata_last(arr,&v1); ares_array_insertdata_first(arr,&v2);
  printf("array after insert_last(1), insertdata_first(2): [%d,%d] (expected [2,1])\n", *(int*)ares_array_at(arr,0), *(int*)ares_array_at(arr,1));
  /* C04 raw rr empty rdata */
  unsigned char msg[]={0x12,0x34,0x81,0x80,0,1,0,1,0,0,0,0, 1,'a',0, 0,1,0,1,  1,'a',0, 0xff,0x01 /*type 65281*/,0,1, 0,0,0,60, 0,0};
  ares_dns_record_t *r3=NULL; st=ares_dns_parse(msg,sizeof msg,0,&r3); printf("parse unknown type w/ empty rdata: %d\n",st);
  if(r3){ const ares_dns_rr_t*x=ares_dns_record_rr_get_const(r3,ARES_SECTION_ANSWER,0); printf("  reported raw type=%u (wire 65281)\n", ares_dns_rr_get_u16(x,ARES_RR_RAW_RR_TYPE)); unsigned char*o;size_t ol; st=ares_dns_write(r3,&o,&ol); printf("  re-serialise status=%d (%s)\n",st,ares_strerror(st)); }
  return 0; }
