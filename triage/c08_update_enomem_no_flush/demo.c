/* replay: ares_servers_update() adds servers one by one and leaves through `goto done` when ares_server_create() runs out of memory -- after
 * earlier servers of the same call were already added.  The flush sat before the `done:` label: the list has changed, the call reports
 * ARES_ENOMEM, the cache is kept and the old answer is replayed. */
#include <stdlib.h>
static long g_count = 0, g_fail = -1;
static void *m_malloc(size_t n) { g_count++; if (g_count == g_fail) return NULL; return malloc(n); }
static void *m_realloc(void *p, size_t n) { g_count++; if (g_count == g_fail) return NULL; return realloc(p, n); }
static void m_free(void *p) { free(p); }
#include "mock.h"

#define NAME "flush.example.com"

static void responder(size_t idx, const ares_dns_record_t *req,
                      ares_dns_record_t *resp)
{
  (void)idx;
  (void)req;
  add_a(resp, ARES_SECTION_ANSWER, NAME, 600, "10.9.8.7");
}

typedef struct {
  int           done;
  ares_status_t status;
} result_t;

static void cb(void *arg, ares_status_t status, size_t timeouts,
               const ares_dns_record_t *dnsrec)
{
  result_t *res = arg;
  (void)timeouts;
  (void)dnsrec;
  res->done   = 1;
  res->status = status;
}

/* returns number of packets the request caused */
static size_t ask(ares_channel_t *channel, const ares_dns_record_t *req)
{
  size_t   before = total_packets();
  result_t r;
  memset(&r, 0, sizeof(r));
  ares_send_dnsrec(channel, req, cb, &r, NULL);
  run_until(channel, &r.done);
  if (r.status != ARES_SUCCESS) {
    die("request failed");
  }
  return total_packets() - before;
}

int main(void)
{
  long k; int viol = 0, tried = 0;
  mock_start(); mock_start(); mock_start();
  g_responder = responder;
  for (k = 1; k < 400; k++) {
    ares_channel_t *channel = channel_create(3600, 0);
    ares_dns_record_t *req = make_request(NAME, ARES_REC_TYPE_A, ARES_FLAG_RD);
    char csv[160], *cur; int rc; size_t n;
    channel_set_servers(channel, 1);
    ask(channel, req);                       /* cached */
    if (ask(channel, req) != 0) die("cache not active");
    snprintf(csv, sizeof(csv), "127.0.0.1:%u,127.0.0.1:%u,127.0.0.1:%u", (unsigned)g_mock[0].port, (unsigned)g_mock[1].port, (unsigned)g_mock[2].port);
    g_count = 0; g_fail = k;
    rc = ares_set_servers_ports_csv(channel, csv);
    g_fail = -1;
    if (g_count < k) { ares_dns_record_destroy(req); ares_destroy(channel); break; }
    cur = ares_get_servers_csv(channel);
    if (rc != ARES_SUCCESS && cur != NULL && strchr(cur, ',') != NULL) {     /* failed, yet the list did change */
      tried++;
      n = ask(channel, req);
      if (n == 0) { printf("allocation #%ld failing: set_servers = %s, servers now %s, repeat request: 0 packets (replayed from the cache)\n", k, ares_strerror(rc), cur); viol++; }
    }
    ares_free_string(cur);
    ares_dns_record_destroy(req);
    ares_destroy(channel);
  }
  printf("%d failing updates that changed the list, %d of them kept the cache\n", tried, viol);
  printf(viol ? "VIOLATION\n" : "OK\n");
  ares_library_cleanup();
  return viol != 0;
}
