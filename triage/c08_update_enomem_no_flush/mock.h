/* Tiny offline test rig shared by the demonstrations:
 *   - a virtual clock (interposes clock_gettime(), which is what c-ares uses)
 *   - one or two UDP mock DNS servers on 127.0.0.1 served from the same thread
 *   - a helper to drive the channel until a request has completed
 * Only the public c-ares API is used. */
#ifndef SEED_MOCK_H
#define SEED_MOCK_H

#define _GNU_SOURCE
#include <stdio.h>
#include <stdlib.h>
#include <string.h>
#include <time.h>
#include <unistd.h>
#include <errno.h>
#include <sys/types.h>
#include <sys/socket.h>
#include <sys/select.h>
#include <sys/syscall.h>
#include <netinet/in.h>
#include <arpa/inet.h>
#include <fcntl.h>

#include "ares.h"

/* ------------------------------------------------------------------ clock */
static long g_time_offset = 0; /* seconds added to every clock reading */

int clock_gettime(clockid_t clk, struct timespec *ts)
{
  long rc = syscall(SYS_clock_gettime, clk, ts);
  if (rc == 0) {
    ts->tv_sec += g_time_offset;
  }
  return (int)rc;
}

static void advance_time(long secs)
{
  g_time_offset += secs;
}

/* ------------------------------------------------------------ mock server */
#define MAX_MOCKS 3

typedef struct {
  int            fd;
  unsigned short port;
  size_t         packets; /* number of requests that reached this server */
} mock_t;

static mock_t g_mock[MAX_MOCKS];
static size_t g_nmock = 0;

/* The demonstration fills in the response (already holding header + question)
 */
typedef void (*responder_t)(size_t mock_idx, const ares_dns_record_t *req,
                            ares_dns_record_t *resp);
static responder_t g_responder = NULL;

static size_t total_packets(void)
{
  size_t i;
  size_t n = 0;
  for (i = 0; i < g_nmock; i++) {
    n += g_mock[i].packets;
  }
  return n;
}

static void die(const char *msg)
{
  fprintf(stderr, "SETUP ERROR: %s (errno=%d)\n", msg, errno);
  exit(99);
}

static size_t mock_start(void)
{
  struct sockaddr_in sa;
  socklen_t          slen = sizeof(sa);
  mock_t            *m;

  if (g_nmock >= MAX_MOCKS) {
    die("too many mocks");
  }
  m = &g_mock[g_nmock];

  m->fd = socket(AF_INET, SOCK_DGRAM, 0);
  if (m->fd < 0) {
    die("socket");
  }
  memset(&sa, 0, sizeof(sa));
  sa.sin_family      = AF_INET;
  sa.sin_addr.s_addr = htonl(INADDR_LOOPBACK);
  sa.sin_port        = 0;
  if (bind(m->fd, (struct sockaddr *)&sa, sizeof(sa)) != 0) {
    die("bind");
  }
  if (getsockname(m->fd, (struct sockaddr *)&sa, &slen) != 0) {
    die("getsockname");
  }
  fcntl(m->fd, F_SETFL, fcntl(m->fd, F_GETFL) | O_NONBLOCK);
  m->port    = ntohs(sa.sin_port);
  m->packets = 0;
  return g_nmock++;
}

static void mock_serve(size_t idx)
{
  mock_t *m = &g_mock[idx];

  for (;;) {
    unsigned char           buf[2048];
    struct sockaddr_storage from;
    socklen_t               fromlen = sizeof(from);
    ares_dns_record_t      *req     = NULL;
    ares_dns_record_t      *resp    = NULL;
    const char             *name    = NULL;
    ares_dns_rec_type_t     qtype;
    ares_dns_class_t        qclass;
    unsigned char          *out    = NULL;
    size_t                  outlen = 0;
    unsigned short          flags;
    ssize_t                 len;

    len = recvfrom(m->fd, buf, sizeof(buf), 0, (struct sockaddr *)&from,
                   &fromlen);
    if (len <= 0) {
      return;
    }
    m->packets++;

    if (ares_dns_parse(buf, (size_t)len, 0, &req) != ARES_SUCCESS) {
      die("mock: cannot parse request");
    }
    if (ares_dns_record_query_get(req, 0, &name, &qtype, &qclass) !=
        ARES_SUCCESS) {
      die("mock: no question");
    }

    flags = (unsigned short)(ARES_FLAG_QR | ARES_FLAG_RA |
                             (ares_dns_record_get_flags(req) &
                              (ARES_FLAG_RD | ARES_FLAG_CD)));
    if (ares_dns_record_create(&resp, ares_dns_record_get_id(req), flags,
                               ares_dns_record_get_opcode(req),
                               ARES_RCODE_NOERROR) != ARES_SUCCESS) {
      die("mock: record_create");
    }
    if (ares_dns_record_query_add(resp, name, qtype, qclass) != ARES_SUCCESS) {
      die("mock: query_add");
    }
    if (g_responder != NULL) {
      g_responder(idx, req, resp);
    }
    if (ares_dns_write(resp, &out, &outlen) != ARES_SUCCESS) {
      die("mock: write");
    }
    if (sendto(m->fd, out, outlen, 0, (struct sockaddr *)&from, fromlen) < 0) {
      die("mock: sendto");
    }
    ares_free_string(out);
    ares_dns_record_destroy(resp);
    ares_dns_record_destroy(req);
  }
}

/* Helpers to add records to a response */
static void add_a(ares_dns_record_t *resp, ares_dns_section_t sect,
                  const char *name, unsigned int ttl, const char *ip)
{
  ares_dns_rr_t *rr = NULL;
  struct in_addr a;
  inet_pton(AF_INET, ip, &a);
  if (ares_dns_record_rr_add(&rr, resp, sect, name, ARES_REC_TYPE_A,
                             ARES_CLASS_IN, ttl) != ARES_SUCCESS ||
      ares_dns_rr_set_addr(rr, ARES_RR_A_ADDR, &a) != ARES_SUCCESS) {
    die("add_a");
  }
}

static void add_soa(ares_dns_record_t *resp, ares_dns_section_t sect,
                    const char *name, unsigned int ttl, unsigned int minimum)
{
  ares_dns_rr_t *rr = NULL;
  if (ares_dns_record_rr_add(&rr, resp, sect, name, ARES_REC_TYPE_SOA,
                             ARES_CLASS_IN, ttl) != ARES_SUCCESS ||
      ares_dns_rr_set_str(rr, ARES_RR_SOA_MNAME, "ns.example.com") !=
        ARES_SUCCESS ||
      ares_dns_rr_set_str(rr, ARES_RR_SOA_RNAME, "root.example.com") !=
        ARES_SUCCESS ||
      ares_dns_rr_set_u32(rr, ARES_RR_SOA_SERIAL, 1) != ARES_SUCCESS ||
      ares_dns_rr_set_u32(rr, ARES_RR_SOA_REFRESH, 3600) != ARES_SUCCESS ||
      ares_dns_rr_set_u32(rr, ARES_RR_SOA_RETRY, 600) != ARES_SUCCESS ||
      ares_dns_rr_set_u32(rr, ARES_RR_SOA_EXPIRE, 86400) != ARES_SUCCESS ||
      ares_dns_rr_set_u32(rr, ARES_RR_SOA_MINIMUM, minimum) != ARES_SUCCESS) {
    die("add_soa");
  }
}

/* ---------------------------------------------------------------- channel */
static ares_channel_t *channel_create(unsigned int qcache_max_ttl, int flags)
{
  struct ares_options opts;
  ares_channel_t     *channel = NULL;
  int                 optmask = ARES_OPT_FLAGS | ARES_OPT_QUERY_CACHE |
                ARES_OPT_TIMEOUTMS | ARES_OPT_TRIES;

  memset(&opts, 0, sizeof(opts));
  opts.flags          = flags; /* no EDNS unless asked for: keeps packets plain */
  opts.qcache_max_ttl = qcache_max_ttl;
  opts.timeout        = 1000;
  opts.tries          = 1;

  if (ares_library_init_mem(ARES_LIB_INIT_ALL, m_malloc, m_free, m_realloc) != ARES_SUCCESS) {
    die("ares_library_init");
  }
  if (ares_init_options(&channel, &opts, optmask) != ARES_SUCCESS) {
    die("ares_init_options");
  }
  return channel;
}

static void channel_set_servers(ares_channel_t *channel, size_t nmocks)
{
  char   csv[128];
  size_t i;
  size_t off = 0;

  csv[0] = 0;
  for (i = 0; i < nmocks; i++) {
    off += (size_t)snprintf(csv + off, sizeof(csv) - off, "%s127.0.0.1:%u",
                            i ? "," : "", (unsigned)g_mock[i].port);
  }
  if (ares_set_servers_ports_csv(channel, csv) != ARES_SUCCESS) {
    die("ares_set_servers_ports_csv");
  }
}

/* Drive the channel and the mock servers until *done becomes non-zero.  Uses
 * the raw syscall clock for its own guard so that virtual time jumps do not
 * matter. */
static void run_until(ares_channel_t *channel, const int *done)
{
  struct timespec start;
  syscall(SYS_clock_gettime, CLOCK_MONOTONIC, &start);

  while (!*done) {
    fd_set          rfds;
    fd_set          wfds;
    int             nfds;
    size_t          i;
    struct timeval  tv;
    struct timespec nowts;

    syscall(SYS_clock_gettime, CLOCK_MONOTONIC, &nowts);
    if (nowts.tv_sec - start.tv_sec > 10) {
      die("request did not complete within 10s");
    }

    FD_ZERO(&rfds);
    FD_ZERO(&wfds);
    nfds = ares_fds(channel, &rfds, &wfds);
    for (i = 0; i < g_nmock; i++) {
      FD_SET(g_mock[i].fd, &rfds);
      if (g_mock[i].fd >= nfds) {
        nfds = g_mock[i].fd + 1;
      }
    }
    tv.tv_sec  = 0;
    tv.tv_usec = 50000;
    if (select(nfds, &rfds, &wfds, NULL, &tv) < 0 && errno != EINTR) {
      die("select");
    }
    for (i = 0; i < g_nmock; i++) {
      mock_serve(i);
      FD_CLR(g_mock[i].fd, &rfds);
    }
    ares_process(channel, &rfds, &wfds);
  }
}

static ares_dns_record_t *make_request(const char *name, ares_dns_rec_type_t t,
                                       unsigned short flags)
{
  ares_dns_record_t *req = NULL;
  if (ares_dns_record_create(&req, 0, flags, ARES_OPCODE_QUERY,
                             ARES_RCODE_NOERROR) != ARES_SUCCESS ||
      ares_dns_record_query_add(req, name, t, ARES_CLASS_IN) != ARES_SUCCESS) {
    die("make_request");
  }
  return req;
}

#endif
