/* C02 (A-OWN): ares_buf_parse_dns_binstr_int() never releases its work buffer when the caller asks to skip the
 * string (bin == NULL): ares_expand_string(enc, abuf, alen, NULL, &len) leaks one block per successful call. */
#include <ares.h>
#include <stdio.h>
#include <stdlib.h>
static long live=0;
static void *m(size_t n){ void*p=malloc(n); if(p) live++; return p; }
static void f(void*p){ if(p){ live--; free(p);} }
static void *r(void*p,size_t n){ if(!p){ void*q=malloc(n); if(q) live++; return q;} return realloc(p,n); }
int main(void){ unsigned char msg[]={5,'h','e','l','l','o'}; long len=0; int i, rc=0;
  ares_library_init_mem(ARES_LIB_INIT_ALL,m,f,r); long base=live;
  for(i=0;i<10;i++) rc|=ares_expand_string(msg,msg,(int)sizeof msg,NULL,&len);
  printf("rc=%d enclen=%ld blocks still allocated after 10 skipping calls: %ld\n",rc,len,live-base);
  ares_library_cleanup(); return live-base?1:0; }
