/* Probe of the UNCHANGED library: does a server that answers one UDP query
 * with K truncated (TC) replies cause K transmissions over TCP? */
#include "mockdns.h"
#define K 10
static int g_done = 0; static ares_status_t g_status;
static void cb(void *arg, ares_status_t status, size_t timeouts, const ares_dns_record_t *dnsrec)
{ (void)arg; (void)timeouts; (void)dnsrec; g_done = 1; g_status = status; }
int main(void)
{
  unsigned short port = 0; int udp = -1, lsn = -1, tcp = -1, i;
  ares_channel_t *channel = NULL; struct ares_options opts; char csv[64];
  unsigned int udp_tx = 0, tcp_tx = 0; long long start;
  unsigned char tcpbuf[65536]; size_t tcplen = 0;
  for (i = 0; i < 50 && lsn < 0; i++) { if (udp >= 0) close(udp); udp = mock_udp(&port); lsn = mock_tcp_listen(port); }
  ares_library_init(ARES_LIB_INIT_ALL);
  memset(&opts, 0, sizeof(opts)); opts.timeout = 1000; opts.tries = 1;
  ares_init_options(&channel, &opts, ARES_OPT_TIMEOUTMS | ARES_OPT_TRIES);
  snprintf(csv, sizeof(csv), "127.0.0.1:%u", (unsigned)port);
  ares_set_servers_ports_csv(channel, csv);
  ares_query_dnsrec(channel, "www.example.com", ARES_CLASS_IN, ARES_REC_TYPE_A, cb, NULL, NULL);
  start = mono_ms();
  while (!g_done && mono_ms() - start < 5000) {
    fd_set rfds, wfds; int nfds, maxfd; struct timeval tv;
    FD_ZERO(&rfds); FD_ZERO(&wfds);
    nfds = ares_fds(channel, &rfds, &wfds); maxfd = nfds - 1;
    FD_SET(udp, &rfds); if (udp > maxfd) maxfd = udp;
    FD_SET(lsn, &rfds); if (lsn > maxfd) maxfd = lsn;
    if (tcp >= 0) { FD_SET(tcp, &rfds); if (tcp > maxfd) maxfd = tcp; }
    tv.tv_sec = 0; tv.tv_usec = 50000;
    select(maxfd + 1, &rfds, &wfds, NULL, &tv);
    if (FD_ISSET(udp, &rfds)) {
      for (;;) {
        unsigned char buf[2048]; struct sockaddr_storage from; socklen_t fromlen = sizeof(from);
        unsigned char *reply = NULL; size_t replylen; int k;
        ssize_t n = recvfrom(udp, buf, sizeof(buf), 0, (struct sockaddr *)&from, &fromlen);
        if (n <= 0) break;
        udp_tx++;
        if (mock_build_reply(buf, (size_t)n, ARES_RCODE_NOERROR, 1, 0, 1, NULL, 0, &reply, &replylen) == 0) {
          for (k = 0; k < K; k++) sendto(udp, reply, replylen, 0, (struct sockaddr *)&from, fromlen);
          ares_free_string(reply);
        }
      }
    }
    if (FD_ISSET(lsn, &rfds) && tcp < 0) { tcp = accept(lsn, NULL, NULL); if (tcp >= 0) set_nonblock(tcp); }
    else if (tcp >= 0 && FD_ISSET(tcp, &rfds)) {
      ssize_t n = recv(tcp, tcpbuf + tcplen, sizeof(tcpbuf) - tcplen, 0);
      if (n == 0) { close(tcp); tcp = -1; }
      else if (n > 0) {
        tcplen += (size_t)n;
        while (tcplen >= 2) { size_t mlen = ((size_t)tcpbuf[0] << 8) | tcpbuf[1]; if (tcplen < mlen + 2) break; tcp_tx++; memmove(tcpbuf, tcpbuf + mlen + 2, tcplen - mlen - 2); tcplen -= mlen + 2; }
      }
    }
    ares_process(channel, &rfds, &wfds);
  }
  printf("udp_tx=%u tcp_tx=%u done=%d status=%s\n", udp_tx, tcp_tx, g_done, g_done ? ares_strerror((int)g_status) : "-");
  return tcp_tx > 1 ? 1 : 0;
}
