/* Tiny helpers shared by the demonstrations: loopback sockets and a DNS reply
 * builder based on the public c-ares record API. */
#ifndef MOCKDNS_H
#define MOCKDNS_H

#include <ares.h>
#include <arpa/inet.h>
#include <errno.h>
#include <fcntl.h>
#include <netinet/in.h>
#include <stdio.h>
#include <stdlib.h>
#include <string.h>
#include <sys/select.h>
#include <sys/socket.h>
#include <sys/time.h>
#include <time.h>
#include <unistd.h>

static long long mono_ms(void)
{
  struct timespec ts;
  clock_gettime(CLOCK_MONOTONIC, &ts);
  return (long long)ts.tv_sec * 1000 + ts.tv_nsec / 1000000;
}

static void set_nonblock(int fd)
{
  int fl = fcntl(fd, F_GETFL, 0);
  fcntl(fd, F_SETFL, fl | O_NONBLOCK);
}

/* UDP socket bound to 127.0.0.1:<ephemeral>, returns fd and the port */
static int mock_udp(unsigned short *port)
{
  struct sockaddr_in sa;
  socklen_t          len = sizeof(sa);
  int                fd  = socket(AF_INET, SOCK_DGRAM, 0);
  if (fd < 0) {
    perror("socket");
    exit(2);
  }
  memset(&sa, 0, sizeof(sa));
  sa.sin_family      = AF_INET;
  sa.sin_addr.s_addr = htonl(INADDR_LOOPBACK);
  sa.sin_port        = 0;
  if (bind(fd, (struct sockaddr *)&sa, sizeof(sa)) != 0) {
    perror("bind");
    exit(2);
  }
  getsockname(fd, (struct sockaddr *)&sa, &len);
  *port = ntohs(sa.sin_port);
  set_nonblock(fd);
  return fd;
}

/* TCP listener on 127.0.0.1:port, -1 if the port is taken */
static int mock_tcp_listen(unsigned short port)
{
  struct sockaddr_in sa;
  int                one = 1;
  int                fd  = socket(AF_INET, SOCK_STREAM, 0);
  if (fd < 0) {
    perror("socket");
    exit(2);
  }
  setsockopt(fd, SOL_SOCKET, SO_REUSEADDR, &one, sizeof(one));
  memset(&sa, 0, sizeof(sa));
  sa.sin_family      = AF_INET;
  sa.sin_addr.s_addr = htonl(INADDR_LOOPBACK);
  sa.sin_port        = htons(port);
  if (bind(fd, (struct sockaddr *)&sa, sizeof(sa)) != 0 || listen(fd, 8) != 0) {
    close(fd);
    return -1;
  }
  set_nonblock(fd);
  return fd;
}

static const ares_dns_rr_t *find_opt(const ares_dns_record_t *rec)
{
  size_t i;
  for (i = 0; i < ares_dns_record_rr_cnt(rec, ARES_SECTION_ADDITIONAL); i++) {
    const ares_dns_rr_t *rr =
      ares_dns_record_rr_get_const(rec, ARES_SECTION_ADDITIONAL, i);
    if (ares_dns_rr_get_type(rr) == ARES_REC_TYPE_OPT) {
      return rr;
    }
  }
  return NULL;
}

/* Client cookie (first 8 bytes of the COOKIE option) of a request, or NULL */
static const unsigned char *req_client_cookie(const ares_dns_record_t *req,
                                              size_t                  *len)
{
  const ares_dns_rr_t *opt = find_opt(req);
  const unsigned char *val = NULL;
  *len                     = 0;
  if (opt == NULL) {
    return NULL;
  }
  if (!ares_dns_rr_get_opt_byid(opt, ARES_RR_OPT_OPTIONS, ARES_OPT_PARAM_COOKIE,
                                &val, len)) {
    return NULL;
  }
  return val;
}

/* Build a reply to the wire format request.
 *   rcode        - response code (may be an extended one such as BADCOOKIE)
 *   tc           - set the TC bit
 *   answer       - add an A record 1.2.3.4 for the question
 *   with_opt     - add an OPT RR (forced when a server cookie is given)
 *   srv_cookie   - server cookie to append to the echoed client cookie
 * Returns malloc'ed buffer in *out (caller frees with ares_free_string). */
static int mock_build_reply(const unsigned char *reqbuf, size_t reqlen,
                            ares_dns_rcode_t rcode, int tc, int answer,
                            int with_opt, const unsigned char *srv_cookie,
                            size_t srv_cookie_len, unsigned char **out,
                            size_t *outlen)
{
  ares_dns_record_t  *req  = NULL;
  ares_dns_record_t  *resp = NULL;
  const char         *qname;
  ares_dns_rec_type_t qtype;
  ares_dns_class_t    qclass;
  unsigned short      flags = ARES_FLAG_QR | ARES_FLAG_RD | ARES_FLAG_RA;
  int                 rv    = -1;

  if (ares_dns_parse(reqbuf, reqlen, 0, &req) != ARES_SUCCESS) {
    return -1;
  }
  if (ares_dns_record_query_get(req, 0, &qname, &qtype, &qclass) !=
      ARES_SUCCESS) {
    goto done;
  }
  if (tc) {
    flags |= ARES_FLAG_TC;
  }
  if (ares_dns_record_create(&resp, ares_dns_record_get_id(req), flags,
                             ARES_OPCODE_QUERY, rcode) != ARES_SUCCESS) {
    goto done;
  }
  if (ares_dns_record_query_add(resp, qname, qtype, qclass) != ARES_SUCCESS) {
    goto done;
  }
  if (answer) {
    ares_dns_rr_t *rr = NULL;
    struct in_addr a;
    a.s_addr = htonl(0x01020304);
    if (ares_dns_record_rr_add(&rr, resp, ARES_SECTION_ANSWER, qname,
                               ARES_REC_TYPE_A, ARES_CLASS_IN,
                               60) != ARES_SUCCESS ||
        ares_dns_rr_set_addr(rr, ARES_RR_A_ADDR, &a) != ARES_SUCCESS) {
      goto done;
    }
  }
  if (with_opt || srv_cookie_len) {
    ares_dns_rr_t       *rr = NULL;
    size_t               cc_len;
    const unsigned char *cc = req_client_cookie(req, &cc_len);
    if (ares_dns_record_rr_add(&rr, resp, ARES_SECTION_ADDITIONAL, "",
                               ARES_REC_TYPE_OPT, ARES_CLASS_IN,
                               0) != ARES_SUCCESS) {
      goto done;
    }
    ares_dns_rr_set_u16(rr, ARES_RR_OPT_UDP_SIZE, 1232);
    ares_dns_rr_set_u8(rr, ARES_RR_OPT_VERSION, 0);
    ares_dns_rr_set_u16(rr, ARES_RR_OPT_FLAGS, 0);
    if (cc != NULL && cc_len >= 8 && srv_cookie_len) {
      unsigned char c[40];
      memcpy(c, cc, 8);
      memcpy(c + 8, srv_cookie, srv_cookie_len);
      if (ares_dns_rr_set_opt(rr, ARES_RR_OPT_OPTIONS, ARES_OPT_PARAM_COOKIE, c,
                              8 + srv_cookie_len) != ARES_SUCCESS) {
        goto done;
      }
    }
  }
  if (ares_dns_write(resp, out, outlen) != ARES_SUCCESS) {
    goto done;
  }
  rv = 0;
done:
  ares_dns_record_destroy(req);
  ares_dns_record_destroy(resp);
  return rv;
}

#endif
