/* C06/R-C06-SHIFT: tries >= 65 with one silent server shifts by >= 64 in ares_calc_query_timeout (UB) */
#include "vs2.h"
#include <sys/time.h>
static int done=0;
static void cb(void*arg, ares_status_t st, size_t to, const ares_dns_record_t*r){ done=1; printf("callback status=%d (%s) timeouts=%zu transmissions=%d\n",st,ares_strerror(st),to,sends); fflush(stdout); }
int main(void){ ares_channel_t*ch; struct ares_options o; memset(&o,0,sizeof o); ares_library_init(ARES_LIB_INIT_ALL);
 o.flags=0;o.tries=70;o.timeout=1;o.maxtimeout=1; ares_init_options(&ch,&o,ARES_OPT_FLAGS|ARES_OPT_TRIES|ARES_OPT_TIMEOUTMS|ARES_OPT_MAXTIMEOUTMS); ares_set_socket_functions_ex(ch,&VS,NULL); ares_set_servers_csv(ch,"127.0.0.1");
 silent=1;
 ares_query_dnsrec(ch,"one.test",ARES_CLASS_IN,ARES_REC_TYPE_A,cb,NULL,NULL);
 for(int i=0;i<4000&&!done;i++){ usleep(10000); ares_process_fd(ch,ARES_SOCKET_BAD,ARES_SOCKET_BAD);} 
 printf("done=%d sends=%d\n",done,sends); return 0; }
