#include <ares.h>
#include <stdio.h>
#include <string.h>
#include <sys/select.h>
static int calls=0; static ares_channel_t *ch;
static void cb(void *arg, ares_status_t status, size_t timeouts, const ares_dns_record_t *r){ calls++; printf("callback #%d status=%d (%s)\n", calls, status, ares_strerror(status)); fflush(stdout); if(calls==1) ares_cancel(ch); }
int main(void){
  struct ares_options o; memset(&o,0,sizeof o);
  ares_library_init(ARES_LIB_INIT_ALL);
  o.timeout=100; o.tries=1;
  if(ares_init_options(&ch,&o,ARES_OPT_TIMEOUTMS|ARES_OPT_TRIES)!=ARES_SUCCESS) return 2;
  ares_set_servers_ports_csv(ch,"127.0.0.1:59999");
  ares_query_dnsrec(ch,"example.com",ARES_CLASS_IN,ARES_REC_TYPE_A,cb,NULL,NULL);
  for(int i=0;i<50 && calls==0;i++){ fd_set r,w; FD_ZERO(&r);FD_ZERO(&w); int n=ares_fds(ch,&r,&w); struct timeval tv={0,50000}; select(n,&r,&w,NULL,&tv); ares_process(ch,&r,&w);} 
  printf("callbacks=%d\n",calls); fflush(stdout);
  ares_destroy(ch); ares_library_cleanup(); return 0; }
