/* C07: query written on an idle kept-open connection never times out under the event thread */
#include <ares.h>
#include <stdio.h>
#include <string.h>
#include <unistd.h>
#include <pthread.h>
#include <time.h>
#include <sys/socket.h>
#include <netinet/in.h>
#include <arpa/inet.h>
static int srv; static volatile int answered=0; static volatile int done[2];
static void *server(void*x){ unsigned char b[512]; struct sockaddr_in from; socklen_t fl;
  for(;;){ fl=sizeof from; ssize_t n=recvfrom(srv,b,sizeof b,0,(struct sockaddr*)&from,&fl); if(n<=0) break; if(answered) { printf("  [server] second query received, staying silent\n"); fflush(stdout); continue; }
    answered=1; b[2]=0x81;b[3]=0x80;b[6]=0;b[7]=1;b[10]=0;b[11]=0; size_t k=12; while(b[k]) k+=b[k]+1; k+=5; unsigned char rr[]={0xc0,0x0c,0,1,0,1,0,0,0,0,0,4,1,2,3,4}; memcpy(b+k,rr,sizeof rr); sendto(srv,b,k+sizeof rr,0,(struct sockaddr*)&from,fl);} return NULL; }
static void cb(void*arg, ares_status_t st, size_t to, const ares_dns_record_t*r){ int i=(int)(long)arg; done[i]=1; printf("callback for query %d: status=%d (%s)\n",i+1,st,ares_strerror(st)); fflush(stdout); }
int main(void){ struct sockaddr_in sa; socklen_t sl=sizeof sa; srv=socket(AF_INET,SOCK_DGRAM,0); memset(&sa,0,sizeof sa); sa.sin_family=AF_INET; sa.sin_addr.s_addr=htonl(0x7f000001); bind(srv,(struct sockaddr*)&sa,sizeof sa); getsockname(srv,(struct sockaddr*)&sa,&sl);
 pthread_t t; pthread_create(&t,NULL,server,NULL);
 ares_channel_t*ch; struct ares_options o; memset(&o,0,sizeof o); ares_library_init(ARES_LIB_INIT_ALL);
 o.flags=ARES_FLAG_STAYOPEN; o.tries=1; o.timeout=300; o.evsys=ARES_EVSYS_DEFAULT; o.qcache_max_ttl=0;
 if(ares_init_options(&ch,&o,ARES_OPT_FLAGS|ARES_OPT_TRIES|ARES_OPT_TIMEOUTMS|ARES_OPT_EVENT_THREAD|ARES_OPT_QUERY_CACHE)!=ARES_SUCCESS){puts("init failed");return 2;}
 char csv[64]; snprintf(csv,sizeof csv,"127.0.0.1:%d",ntohs(sa.sin_port)); ares_set_servers_ports_csv(ch,csv);
 ares_query_dnsrec(ch,"first.example.com",ARES_CLASS_IN,ARES_REC_TYPE_A,cb,(void*)0L,NULL);
 for(int i=0;i<50&&!done[0];i++) usleep(100000);
 sleep(1); /* event thread now sleeps with no deadline */
 ares_query_dnsrec(ch,"second.example.com",ARES_CLASS_IN,ARES_REC_TYPE_A,cb,(void*)1L,NULL);
 time_t t0=time(NULL); for(int i=0;i<80&&!done[1];i++) usleep(100000);
 printf("query 2 (tries=1, timeout=300ms) %s after %lds\n", done[1]?"completed":"STILL PENDING", (long)(time(NULL)-t0)); fflush(stdout);
 _exit(0); }
