/* Replay for R-C11-GUARD findings: several client threads use one channel (event thread enabled)
 * concurrently: ares_reinit, ares_save_options, ares_search, callback setters.  Build the library and this
 * file with -fsanitize=thread; on the tree before the "fix:" commits 711fbe1..43d3a2d ThreadSanitizer reports
 * data races in ares_reinit (channel->reinit_thread), ares_save_options and the setters. */
#include <ares.h>
#include <pthread.h>
#include <stdio.h>
#include <string.h>
#include <unistd.h>

static ares_channel_t *ch;
static int             stop_flag;
#define stop __atomic_load_n(&stop_flag, __ATOMIC_SEQ_CST)

static void cb(void *arg, int status, int timeouts, unsigned char *abuf, int alen)
{
  (void)arg; (void)status; (void)timeouts; (void)abuf; (void)alen;
}
static int sockcb(ares_socket_t fd, int type, void *data)
{
  (void)fd; (void)type; (void)data;
  return 0;
}
static void srvcb(const char *s, ares_bool_t ok, int flags, void *data)
{
  (void)s; (void)ok; (void)flags; (void)data;
}

static void *t_reinit(void *a)
{
  (void)a;
  while (!stop) {
    ares_reinit(ch);
  }
  return NULL;
}
static void *t_save(void *a)
{
  (void)a;
  while (!stop) {
    struct ares_options o;
    int                 m = 0;
    memset(&o, 0, sizeof(o));
    if (ares_save_options(ch, &o, &m) == ARES_SUCCESS) {
      ares_destroy_options(&o);
    }
  }
  return NULL;
}
static void *t_search(void *a)
{
  (void)a;
  while (!stop) {
    ares_search(ch, "example.com", 1, 1, cb, NULL);
    ares_set_socket_callback(ch, sockcb, NULL);
    ares_set_server_state_callback(ch, srvcb, NULL);
    ares_cancel(ch);
  }
  return NULL;
}

int main(void)
{
  struct ares_options opts;
  pthread_t           th[6];
  int                 i;
  memset(&opts, 0, sizeof(opts));
  opts.evsys = ARES_EVSYS_DEFAULT;
  ares_library_init(ARES_LIB_INIT_ALL);
  if (ares_init_options(&ch, &opts, ARES_OPT_EVENT_THREAD) != ARES_SUCCESS) {
    printf("init failed\n");
    return 2;
  }
  ares_set_servers_csv(ch, "127.0.0.1:5399");
  pthread_create(&th[0], NULL, t_reinit, NULL);
  pthread_create(&th[1], NULL, t_reinit, NULL);
  pthread_create(&th[2], NULL, t_save, NULL);
  pthread_create(&th[3], NULL, t_search, NULL);
  pthread_create(&th[4], NULL, t_search, NULL);
  pthread_create(&th[5], NULL, t_reinit, NULL);
  sleep(3);
  __atomic_store_n(&stop_flag, 1, __ATOMIC_SEQ_CST);
  for (i = 0; i < 6; i++) {
    pthread_join(th[i], NULL);
  }
  ares_destroy(ch);
  ares_library_cleanup();
  printf("done\n");
  return 0;
}
