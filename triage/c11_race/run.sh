#!/bin/sh
# usage: run.sh <source tree> ; builds src/lib with TSan in a scratch dir and runs the harness; prints the distinct racing functions
SRC="$1"; HERE="$(cd "$(dirname "$0")" && pwd)"
W="$(mktemp -d /tmp/c11-tsan.XXXXXX)"
CFG=/verif/.cache/cfg
FILES=$(cd "$SRC/src/lib" && ls *.c */*.c | grep -v "/windows_port\|ares_event_win32\|ares_sysconfig_win\|ares_sysconfig_mac\|ares_event_kqueue\|ares_event_configchg.c_none")
( cd "$SRC/src/lib" && for f in $FILES; do echo $f; done ) | xargs -P16 -I{} sh -c "clang -g -O1 -fsanitize=thread -DHAVE_CONFIG_H -DCARES_BUILDING_LIBRARY -DCARES_STATICLIB -D_GNU_SOURCE -I$CFG -I$CFG/src/lib -I$SRC/include -I$SRC/src/lib -I$SRC/src/lib/include -c $SRC/src/lib/{} -o $W/\$(echo {} | tr / _).o 2>>$W/err.log"
clang -g -O1 -fsanitize=thread -DCARES_STATICLIB -I$CFG -I$SRC/include "$HERE/race_harness.c" $W/*.o -lpthread -o $W/harness 2>>$W/err.log || { tail -5 $W/err.log; rm -rf "$W"; exit 2; }
TSAN_OPTIONS="halt_on_error=0 report_signal_unsafe=0" timeout 120 $W/harness > $W/out.log 2>&1
echo "exit=$?"
grep -c "WARNING: ThreadSanitizer: data race" $W/out.log
grep -A3 "WARNING: ThreadSanitizer: data race" $W/out.log | grep "#0" | sed 's/.*#0 //; s/ (.*//' | sort | uniq -c | sort -rn | head -20
tail -2 $W/out.log
[ -n "$KEEP" ] && cp $W/out.log /tmp/c11-out.log; rm -rf "$W"
