/* replay: ares_set_socket_functions_ex() clears channel->sock_funcs before it validates the new table.  A call that is rejected
 * (a mandatory function is NULL -> ARES_EFORMERR) therefore leaves the channel with an all-NULL function table: the next request
 * calls a NULL asocket.  Expected: a rejected call changes nothing and the following request uses the previous functions. */
#include <ares.h>
#include <signal.h>
#include <stdio.h>
#include <string.h>
#include <stdlib.h>
#include <unistd.h>

static void on_segv(int sig) { (void)sig; const char m[] = "VIOLATION: crash (NULL socket function called after a rejected ares_set_socket_functions_ex)\n"; write(1, m, sizeof(m) - 1); _exit(1); }
static void cb(void *arg, ares_status_t st, size_t t, const ares_dns_record_t *r) { (void)arg; (void)t; (void)r; printf("request finished: %s\n", ares_strerror((int)st)); }

int main(void)
{
  ares_channel_t *ch = NULL;
  struct ares_options o;
  struct ares_socket_functions_ex bad;
  ares_status_t st;
  signal(SIGSEGV, on_segv);
  ares_library_init(ARES_LIB_INIT_ALL);
  memset(&o, 0, sizeof(o)); o.flags = ARES_FLAG_NOSEARCH; o.timeout = 100; o.tries = 1;
  if (ares_init_options(&ch, &o, ARES_OPT_FLAGS | ARES_OPT_TIMEOUTMS | ARES_OPT_TRIES) != ARES_SUCCESS) return 2;
  ares_set_servers_csv(ch, "127.0.0.1:9");
  memset(&bad, 0, sizeof(bad));
  bad.version = 1;                       /* every mandatory member NULL */
  st = ares_set_socket_functions_ex(ch, &bad, NULL);
  printf("incomplete table: %s\n", ares_strerror((int)st));
  if (st == ARES_SUCCESS) return 2;
  ares_query_dnsrec(ch, "example.com", ARES_CLASS_IN, ARES_REC_TYPE_A, cb, NULL, NULL);
  ares_cancel(ch);
  ares_destroy(ch);
  ares_library_cleanup();
  printf("ok\n");
  return 0;
}
