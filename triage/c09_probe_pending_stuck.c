/* C09: a failed server must keep being re-tried by probes after the retry delay.  When a probe copy itself fails (timeout),
 * ares_requeue_query() ends it with end_query(channel, NULL, ...): end_query only clears server->probe_pending for a non-NULL
 * server, so the flag stays set for ever and ares_probe_failed_server() never probes that server again.
 * In-memory network: server A = 10.0.0.1 (silent until 'a_up'), server B = 10.0.0.2 (always answers). */
#include <ares.h>
#include <stdio.h>
#include <string.h>
#include <stdlib.h>
#include <errno.h>
#include <unistd.h>
#include <netinet/in.h>
#include <arpa/inet.h>
static int nsock=100; static unsigned dest[64]; static int a_up=0; static int to_a=0,to_b=0;
static unsigned char pend[64][512]; static size_t pend_len[64];
static ares_socket_t v_socket(int d,int t,int p,void*u){ (void)d;(void)t;(void)p;(void)u; return nsock++; }
static int v_close(ares_socket_t s,void*u){ (void)s;(void)u; return 0; }
static int v_setsockopt(ares_socket_t s, ares_socket_opt_t o, const void*v, ares_socklen_t l, void*u){ (void)s;(void)o;(void)v;(void)l;(void)u; return 0; }
static int v_connect(ares_socket_t s,const struct sockaddr*a,ares_socklen_t l,unsigned int f,void*u){ (void)l;(void)f;(void)u; dest[s-100]=ntohl(((const struct sockaddr_in*)a)->sin_addr.s_addr); return 0; }
static ares_ssize_t v_sendto(ares_socket_t s,const void*b,size_t l,int f,const struct sockaddr*a,ares_socklen_t al,void*u){ (void)f;(void)a;(void)al;(void)u;
  unsigned d=dest[s-100]; if(d==0x0a000001){ to_a++; if(!a_up) return (ares_ssize_t)l; } else to_b++;
  /* build an answer */ unsigned char*r=pend[s-100]; memcpy(r,b,l); r[2]=0x81; r[3]=0x80; r[6]=0; r[7]=1; r[10]=0; r[11]=0; size_t i=12; while(r[i]) i+=r[i]+1; i+=5;
  unsigned char rr[]={0xc0,0x0c,0,1,0,1,0,0,0,60,0,4,1,2,3,4}; memcpy(r+i,rr,sizeof rr); pend_len[s-100]=i+sizeof rr; return (ares_ssize_t)l; }
static ares_ssize_t v_recvfrom(ares_socket_t s,void*b,size_t l,int f,struct sockaddr*a,ares_socklen_t*al,void*u){ (void)l;(void)f;(void)u;
  if(!pend_len[s-100]){ errno=EWOULDBLOCK; return -1; } if(a&&al){ struct sockaddr_in*sin=(struct sockaddr_in*)a; memset(sin,0,sizeof *sin); sin->sin_family=AF_INET; sin->sin_addr.s_addr=htonl(dest[s-100]); sin->sin_port=htons(53); *al=sizeof *sin; }
  size_t n=pend_len[s-100]; memcpy(b,pend[s-100],n); pend_len[s-100]=0; return (ares_ssize_t)n; }
static int v_getsockname(ares_socket_t s,struct sockaddr*a,ares_socklen_t*al,void*u){ (void)s;(void)u; struct sockaddr_in*sin=(struct sockaddr_in*)a; memset(sin,0,sizeof *sin); sin->sin_family=AF_INET; sin->sin_addr.s_addr=htonl(0x0a0000fe); *al=sizeof *sin; return 0; }
static struct ares_socket_functions_ex VS={1,ARES_SOCKFUNC_FLAG_NONBLOCKING,v_socket,v_close,v_setsockopt,v_connect,v_recvfrom,v_sendto,v_getsockname,NULL,NULL,NULL};
static int done=0;
static void cb(void*arg, ares_status_t st, size_t to, const ares_dns_record_t*r){ (void)arg;(void)to;(void)r;(void)st; done++; }
static void pump(ares_channel_t*ch,int ms){ int t; for(t=0;t<ms;t+=20){ ares_fd_events_t ev[8]; int i,n=0; for(i=0;i<nsock-100&&n<8;i++) if(pend_len[i]){ ev[n].fd=100+i; ev[n].events=ARES_FD_EVENT_READ; n++; } ares_process_fds(ch,n?ev:NULL,(size_t)n,0); usleep(20000);} }
static void query(ares_channel_t*ch,const char*n){ int d0=done; ares_query_dnsrec(ch,n,ARES_CLASS_IN,ARES_REC_TYPE_A,cb,NULL,NULL); while(done==d0) pump(ch,20); }
int main(void){ ares_channel_t*ch; struct ares_options o; memset(&o,0,sizeof o); ares_library_init(ARES_LIB_INIT_ALL);
  o.tries=1; o.timeout=100; o.qcache_max_ttl=0; o.flags=ARES_FLAG_NOSEARCH; o.server_failover_opts.retry_chance=1; o.server_failover_opts.retry_delay=200;
  if(ares_init_options(&ch,&o,ARES_OPT_TRIES|ARES_OPT_TIMEOUTMS|ARES_OPT_QUERY_CACHE|ARES_OPT_FLAGS|ARES_OPT_SERVER_FAILOVER)!=ARES_SUCCESS) return 2;
  ares_set_socket_functions_ex(ch,&VS,NULL); ares_set_servers_csv(ch,"10.0.0.1,10.0.0.2");
  query(ch,"q1.example");            /* A times out, fails over to B */
  pump(ch,300); query(ch,"q2.example"); pump(ch,300);   /* answered by B; probe to A goes out and times out */
  printf("after q2: packets to A=%d B=%d\n",to_a,to_b);
  a_up=1; int a0=to_a; pump(ch,300);
  query(ch,"q3.example"); pump(ch,300); query(ch,"q4.example"); pump(ch,300);
  printf("A is back up; two more requests later: new packets to A=%d\n",to_a-a0);
  int ok = to_a-a0>0; printf("%s\n", ok?"A was probed again":"A is NEVER probed again (probe_pending stuck)");
  ares_destroy(ch); ares_library_cleanup(); return ok?0:1; }
