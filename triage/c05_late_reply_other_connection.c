/* C05: late reply from server A (arriving on A's socket) answers a query currently assigned to server B */
#include <ares.h>
#include <stdio.h>
#include <string.h>
#include <errno.h>
#include <unistd.h>
#include <netinet/in.h>
static unsigned char lastq[8][512]; static size_t lastq_len[8]; static int pending[8]; static unsigned int peer[8]; static int nsock=0; 
static ares_socket_t v_socket(int d,int t,int p,void*u){ return 100+nsock++; }
static int v_close(ares_socket_t s,void*u){ printf("  [vs] close(%d)\n",(int)s); return 0; }
static int v_setsockopt(ares_socket_t s, ares_socket_opt_t o, const void*v, ares_socklen_t l, void*u){ return 0; }
static int v_connect(ares_socket_t s,const struct sockaddr*a,ares_socklen_t l,unsigned int f,void*u){ peer[s-100]=((const struct sockaddr_in*)a)->sin_addr.s_addr; printf("  [vs] socket %d connected to %08x\n",(int)s,ntohl(peer[s-100])); return 0; }
static ares_ssize_t v_sendto(ares_socket_t s,const void*b,size_t l,int f,const struct sockaddr*a,ares_socklen_t al,void*u){ memcpy(lastq[s-100],b,l); lastq_len[s-100]=l; printf("  [vs] query sent on socket %d (id %02x%02x)\n",(int)s,((unsigned char*)b)[0],((unsigned char*)b)[1]); return (ares_ssize_t)l; }
static ares_ssize_t v_recvfrom(ares_socket_t s,void*b,size_t l,int f,struct sockaddr*a,ares_socklen_t*al,void*u){ int i=s-100; if(!pending[i]){ errno=EWOULDBLOCK; return -1;} pending[i]=0;
  unsigned char*r=b; /* reply built from the LATEST query (sent on the other socket): same id, same question */ int src=pending[7]; memcpy(r,lastq[src],lastq_len[src]); r[2]=0x81;r[3]=0x80;r[6]=0;r[7]=1;r[10]=0;r[11]=0; size_t k=12; while(r[k]) k+=r[k]+1; k+=5; unsigned char rr[]={0xc0,0x0c,0,1,0,1,0,0,1,0x2c,0,4,9,9,9,9}; memcpy(r+k,rr,sizeof rr);
  if(a&&al){ struct sockaddr_in*sin=(struct sockaddr_in*)a; memset(sin,0,sizeof *sin); sin->sin_family=AF_INET; sin->sin_addr.s_addr=peer[i]; sin->sin_port=htons(53); *al=sizeof *sin;} return (ares_ssize_t)(k+sizeof rr); }
static int v_getsockname(ares_socket_t s,struct sockaddr*a,ares_socklen_t*al,void*u){ struct sockaddr_in*sin=(struct sockaddr_in*)a; memset(sin,0,sizeof *sin); sin->sin_family=AF_INET; sin->sin_addr.s_addr=htonl(0x7f000001); *al=sizeof *sin; return 0; }
static struct ares_socket_functions_ex VS={1,ARES_SOCKFUNC_FLAG_NONBLOCKING,v_socket,v_close,v_setsockopt,v_connect,v_recvfrom,v_sendto,v_getsockname,NULL,NULL,NULL};
static void cb(void*arg, ares_status_t st, size_t to, const ares_dns_record_t*r){ printf("callback status=%d timeouts=%zu answers=%zu\n",st,to,r?ares_dns_record_rr_cnt(r,ARES_SECTION_ANSWER):0); }
int main(void){ ares_channel_t*ch; struct ares_options o; memset(&o,0,sizeof o); ares_library_init(ARES_LIB_INIT_ALL);
 o.flags=0; /* no EDNS => no cookies */ o.tries=2; o.timeout=100; ares_init_options(&ch,&o,ARES_OPT_FLAGS|ARES_OPT_TRIES|ARES_OPT_TIMEOUTMS); ares_set_socket_functions_ex(ch,&VS,NULL); ares_set_servers_csv(ch,"127.0.0.1,127.0.0.2");
 ares_query_dnsrec(ch,"example.com",ARES_CLASS_IN,ARES_REC_TYPE_A,cb,NULL,NULL);      /* goes to server A on socket 100 */
 usleep(300000); ares_process_fd(ch,ARES_SOCKET_BAD,ARES_SOCKET_BAD);                 /* timeout -> requeued to server B on socket 101 */
 printf("now a late reply arrives on socket 100 (server A) while the query is assigned to socket 101 (server B)\n");
 pending[0]=1; pending[7]=1; /* reply content copies the query as sent on socket 101 (same id) */
 ares_process_fd(ch,100,ARES_SOCKET_BAD);
 ares_destroy(ch); return 0; }
