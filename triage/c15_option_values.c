/* C15: numeric resolv.conf options are taken with strtoul() unchecked: 'ndots:-1' becomes 4294967295 (every name is tried with the
 * search domain first), 'timeout:4294968' wraps (x1000, 32 bit) to 704 ms.  The effective timeout is observed through
 * ares_timeout() on an outstanding query; ndots through the first question ares_search() puts on the (in-memory) wire. */
#include "vs.h"
static void cb(void*arg, int st, int to, unsigned char*b, int l){ (void)arg;(void)st;(void)to;(void)b;(void)l; }
static ares_ssize_t s_sendto(ares_socket_t s,const void*b,size_t l,int f,const struct sockaddr*a,ares_socklen_t al,void*u){ (void)s;(void)f;(void)a;(void)al;(void)u; if(!sends){ memcpy(lastq,b,l); lastq_len=l; } sends++; return (ares_ssize_t)l; }
static long probe(const char*options,char*firstq,size_t n){ ares_channel_t*ch; struct ares_options o; struct timeval tv,*r; FILE*fp=fopen("/tmp/c15_opt.conf","w"); long ms;
  fprintf(fp,"nameserver 192.0.2.1\nsearch first.example\noptions %s\n",options); fclose(fp); memset(&o,0,sizeof o);
  o.resolvconf_path=(char*)"/tmp/c15_opt.conf"; if(ares_init_options(&ch,&o,ARES_OPT_RESOLVCONF)!=ARES_SUCCESS) return -1;
  VS.asendto=s_sendto; ares_set_socket_functions_ex(ch,&VS,NULL); lastq_len=0; sends=0;
  ares_search(ch,"a.b",1,1,cb,NULL);
  r=ares_timeout(ch,NULL,&tv); ms = r? (long)(r->tv_sec*1000+r->tv_usec/1000) : -1;
  firstq[0]=0; if(lastq_len>12){ size_t i=12,k=0; while(lastq[i]&&k+1<n){ memcpy(firstq+k,lastq+i+1,lastq[i]); k+=lastq[i]; firstq[k++]='.'; i+=lastq[i]+1; } firstq[k?k-1:0]=0; }
  ares_destroy(ch); return ms; }
int main(void){ char q[256]; long ms; int bad=0; ares_library_init(ARES_LIB_INIT_ALL);
  ms=probe("timeout:2",q,sizeof q); printf("timeout:2          -> first timeout ~%ld ms, first question %s\n",ms,q);
  ms=probe("timeout:4294968",q,sizeof q); printf("timeout:4294968    -> first timeout ~%ld ms\n",ms); if(ms>=0 && ms<1500) bad++;
  ms=probe("ndots:-1",q,sizeof q); printf("ndots:-1           -> first question %s\n",q); if(strcmp(q,"a.b")!=0) bad++;
  printf("%d out-of-range value(s) took effect\n",bad); ares_library_cleanup(); remove("/tmp/c15_opt.conf"); return bad?1:0; }
