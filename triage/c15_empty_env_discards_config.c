/* C15: LOCALDOMAIN="" or RES_OPTIONS="" (set but empty) must change nothing.  ares_buf_create_const() returns NULL for an empty
 * string, the environment handlers report that as ARES_ENOMEM, and ares_init_by_sysconfig() then drops the whole file
 * configuration.  usage: VAR= c15_empty_env_discards_config <resolv.conf> */
#include <ares.h>
#include <stdio.h>
#include <string.h>
int main(int argc,char**argv){ ares_channel_t *ch; struct ares_options o; int rc; (void)argc; memset(&o,0,sizeof o); ares_library_init(ARES_LIB_INIT_ALL);
 o.resolvconf_path=argv[1]; rc=ares_init_options(&ch,&o,ARES_OPT_RESOLVCONF); if(rc!=ARES_SUCCESS){ printf("init failed: %s\n",ares_strerror(rc)); return 2; }
 char*csv=ares_get_servers_csv(ch); printf("servers=%s\n",csv?csv:"(null)"); int ok = csv && strstr(csv,"192.0.2.1")!=NULL; ares_free_string(csv);
 ares_destroy(ch); ares_library_cleanup(); return ok?0:1; }
